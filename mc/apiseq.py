"""API-sequence exploration: the ENVIRONMENT OBJECT as a state machine.

The sweep explores (state, action, draw) triples with `generative_step`; whatever an environment *object*
remembers between calls (memos, flags, pooled objects, counters) is invisible to it.  Here the object under test is
driven through complete programs over the public API

    R            env.reset()
    S(a, side)   env.step(a) with the scripted draw on `side` of the action's probability
    G(ref, a, side)  env.generative_step(<kept state>, a): ref = cur (env.current_state), K0 (the state object
                 returned by the first reset), prev (the state object before the last step)
    I            env.generate_initial_state()
    C            the program continues on copy.deepcopy(env) (skipped where copying is unsupported)
    V            observers: render_obs("ansi"), render_state("ansi", <current state as ndarray>), then gc.collect()
    U(v)         env.step(<parameter vector that names no defined action>)   (parameterised action mode only)

and EVERY result of every operation is compared with a reference table: the complete state graph of the scenario
computed beforehand on a SEPARATE, pristine environment object by generative steps only (that table is what the
sweep-based checks validate against the reference model - the API scenarios are corner scenarios of the family).
The result of an operation must be a function of (state, action, draw) and of the number of steps since the last
reset - never of what the object did before.

Programs (all of them, within the stated bounds - no sampling):
  (A) two episodes: [R] + P1 + [R] + P2 for ALL pairs of routes P1, P2 (a route = a path of state-changing
      successful steps from the reset state, length <= L1 / L2): every order of gaining ground in the first
      episode x every order in the second one, on the same object.
  (B) one perturbation: [R] + P + Q + [probe] for ALL routes P (length <= Lb), ALL perturbations
      Q in {[x], [x, R]} with x any single operation of the alphabet (every action, both draw sides, every kept
      state) and ALL probes S/G of the actions related to it (the perturbation's own action, the actions of P, the
      actions that extend P) with both draw sides.
Each discrepancy is tagged with the aspects that differ; a property check reports the aspects its statement covers.
"""
import collections
import itertools
import json
import multiprocessing as mp
import os
import time

import numpy as np

from .common import HarnessError, import_nasim, ncpu
from .seams import draw_values

SIDES = ("below", "above")

# aspect -> properties whose statement covers it
ASPECT_PROPS = {
    "success_lost": ["C01"],                      # applicable action that the table says succeeds, failed
    "success_gained": ["C02", "C07"],             # action the table says fails, succeeded
    "next_state": ["C01", "C02", "C03"],          # resulting state differs (compromise / access / reachable / discovered)
    "reset_state": ["C04"], "reset_obs": ["C04"], "reset_steps": ["C04", "C06"],
    "reward": ["C05"],
    "done": ["C06"], "truncated": ["C06"],
    "info": ["C07", "C08"],
    "obs": ["C08"],
    "mask": ["C11"],
    "purity": ["C13"],                            # a generative step / query changed the environment
    "step_vs_table": ["C13", "C14"],              # any difference at all: result depends on the object's history
    "initial_state_helper": ["C04"],
    "monotonicity": ["C04"],
    "copy": ["C13"],
    "observer_consumed_randomness": ["C14"],
    "exception": ["C13"],
    "action_argument_modified": ["C12", "C13"],
}


def _canon(x):
    if isinstance(x, dict):
        return {str(k): _canon(v) for k, v in sorted(x.items(), key=lambda kv: str(kv[0]))}
    if isinstance(x, (list, tuple)):
        return [_canon(v) for v in x]
    if isinstance(x, np.ndarray):
        return [x.shape, x.dtype.str, x.tobytes().hex()]
    if isinstance(x, (bool, np.bool_)):
        return bool(x)
    if isinstance(x, (np.floating, float)):
        return float(x)
    if isinstance(x, (np.integer, int)):
        return int(x)
    return x if isinstance(x, (str, type(None))) else repr(x)


class Mode:
    def __init__(self, name, fully_obs=False, flat_obs=True, flat_actions=True):
        self.name, self.fully_obs, self.flat_obs, self.flat_actions = name, fully_obs, flat_obs, flat_actions


MODES = {
    "po": Mode("po"), "fo": Mode("fo", fully_obs=True), "po2d": Mode("po2d", flat_obs=False),
    "param": Mode("param", flat_actions=False),
    # flat environment driven with Action OBJECTS that are instances of user-defined subclasses of the stock classes
    "sub": Mode("sub"),
}


class Table:
    """complete state graph of one scenario in one observation mode, from a pristine environment"""

    def __init__(self, spec, binding, mode):
        import_nasim()
        from nasim.envs import NASimEnv
        from nasim.envs.action import NoOp
        from .sweep import make_ctx, seam
        self.spec, self.binding, self.mode = spec, binding, mode
        self.ctx = make_ctx(spec, binding)
        self.seam = seam()
        sc = self.ctx.scenario
        self.env = NASimEnv(sc, fully_obs=mode.fully_obs, flat_actions=True, flat_obs=mode.flat_obs)
        self.actions = list(self.env.action_space.actions) + [NoOp()]
        self.mactions = self.ctx.mactions
        self.step_limit = sc.step_limit
        obs, _ = self.env.reset()
        self.init_obs = np.asarray(obs).copy()
        s0 = self.env.current_state
        self.init_key = s0.tensor.tobytes()
        self.states = {self.init_key: s0}
        self.T = {}
        self.succ = collections.defaultdict(list)       # key -> [(a_idx, key2)] state-changing successes (below)
        frontier = collections.deque([self.init_key])
        while frontier:
            k = frontier.popleft()
            s = self.states[k]
            for a_idx, act in enumerate(self.actions):
                m = self.mactions[a_idx]
                if m is None:
                    continue
                for side in SIDES:
                    if m["type"] == "noop" and side == "above":
                        continue
                    self.seam.arm(draw_values(m["prob"])[side])
                    s2, o, r, d, info = self.env.generative_step(s, act)
                    k2 = s2.tensor.tobytes()
                    self.T[(k, a_idx, side)] = (k2, o.tensor.tobytes(), float(r), bool(d), json.dumps(_canon(info), sort_keys=True),
                                                bool(info["success"]))
                    if k2 not in self.states:
                        self.states[k2] = s2
                        frontier.append(k2)
                    if k2 != k and side == "below":
                        self.succ[k].append((a_idx, k2))
        if len(self.states) > 400:
            raise HarnessError(f"API scenario {spec.get('name')} has {len(self.states)} states: too large for the sequence engine")
        # expected action masks from the DECODED state (discovered flag of the target's row)
        self.mask = {}
        for k, s in self.states.items():
            ms = self.ctx.decode(k, s.tensor)
            row = self.ctx.layout.row_of
            self.mask[k] = [int(ms[row[tuple(int(x) for x in a.target)]][2]) for a in self.actions[:-1]]

    def routes(self, maxlen, cap=None):
        """all paths of state-changing successful steps from the reset state, length <= maxlen"""
        out = [()]
        level = [((), self.init_key)]
        for _ in range(maxlen):
            nxt = []
            for path, k in level:
                for a_idx, k2 in self.succ[k]:
                    nxt.append((path + (a_idx,), k2))
            out += [p for p, _ in nxt]
            level = nxt
            if cap is not None and len(out) > cap:
                raise HarnessError(f"{self.spec.get('name')}: more than {cap} routes of length <= {maxlen}")
        return out


class Runner:
    """executes programs on ONE environment object under test and compares every result with the table"""

    def __init__(self, table, mode, fresh_scenario=True):
        import_nasim()
        from nasim.envs import NASimEnv
        from .spec import build_scenario
        from .sweep import make_ctx
        self.t, self.mode = table, mode
        if fresh_scenario and table.binding in ("dict", "yaml"):
            sc = build_scenario(table.spec, table.binding)
            try:
                sc.name = "verif"
            except Exception:
                pass
        else:
            sc = make_ctx(table.spec, table.binding).scenario
        self.env = NASimEnv(sc, fully_obs=mode.fully_obs, flat_actions=mode.flat_actions, flat_obs=mode.flat_obs)
        self.args = list(range(len(table.actions) - 1)) + [None]
        if mode.flat_actions:
            self.args[-1] = table.actions[-1]                   # the no-op is passed as an Action object
            if mode.name == "sub":
                import copy as _copy
                own = list(self.env.action_space.actions)
                for i, a in enumerate(own):
                    b = _copy.copy(a)
                    b.__class__ = type("User" + type(a).__name__, (type(a),), {})
                    self.args[i] = b
        else:
            from .explore import param_vector, param_expressible
            ok_e, ok_p = param_expressible(table.spec)
            for i, m in enumerate(table.mactions):
                if m is None or m["type"] == "noop":
                    self.args[i] = table.actions[-1] if (m is not None) else None
                elif (m["type"] == "exploit" and m["name"] not in ok_e) or (m["type"] == "privesc" and m["name"] not in ok_p):
                    self.args[i] = None
                else:
                    # ONE array object per action for the whole life of the runner (a stored plan that is replayed)
                    self.args[i] = np.array(param_vector(table.spec, m), dtype=np.int64)
        self.arg_bytes = [a.tobytes() if isinstance(a, np.ndarray) else None for a in self.args]
        self.observe_mask = mode.flat_actions
        self.ops = 0
        if mode.flat_actions:
            self.arg_bytes = [None] * len(self.args)

    # -------------------------------------------------------------------------------------------------
    def run(self, prog):
        """-> None or a discrepancy dict (the program stops at the first one)"""
        t, env, sm = self.t, self.env, self.t.seam
        cur = None
        steps = 0
        kept = {}
        for i, op in enumerate(prog):
            self.ops += 1
            kind = op[0]
            try:
                if kind == "R":
                    obs, _ = env.reset()
                    asp = []
                    if env.current_state.tensor.tobytes() != t.init_key:
                        asp.append("reset_state")
                    if np.asarray(obs).tobytes() != t.init_obs.tobytes() or np.asarray(obs).shape != t.init_obs.shape:
                        asp.append("reset_obs")
                    if env.steps != 0:
                        asp.append("reset_steps")
                    if asp:
                        return self._disc(prog, i, asp, {"steps": int(env.steps)})
                    cur, steps = t.init_key, 0
                    kept.setdefault("K0", env.current_state)
                    kept.pop("prev", None)
                elif kind in ("S", "U"):
                    if kind == "S":
                        a_idx, side = op[1], op[2]
                        arg = self.args[a_idx]
                        if arg is None:
                            continue
                        m = t.mactions[a_idx]
                        sm.arm(draw_values(m["prob"])[side])
                        exp = t.T[(cur, a_idx, side)]
                    else:
                        arg, side = list(op[1]), "below"
                        a_idx = len(t.actions) - 1                 # behaves as the no-op
                        sm.arm(0.5)
                        exp = t.T[(cur, a_idx, "below")]
                    prev = env.current_state
                    if kind == "U":
                        arg = np.array(arg, dtype=np.int64) if op[-1] == "np" else list(arg)
                    o, r, d, tr, info = env.step(arg)
                    steps += 1
                    if kind == "S" and self.arg_bytes[a_idx] is not None and arg.tobytes() != self.arg_bytes[a_idx]:
                        return self._disc(prog, i, ["action_argument_modified"], {"vector_now": arg.tolist()})
                    k2 = env.current_state.tensor.tobytes()
                    asp = []
                    if k2 != exp[0]:
                        asp.append("next_state")
                        # within an episode nothing the attacker holds or knows is ever lost
                        try:
                            before = t.ctx.decode(cur, prev.tensor)
                            after = t.ctx.decode(k2, env.current_state.tensor)
                            if any(x2 < x1 for r1, r2 in zip(before, after) for x1, x2 in zip(r1, r2)):
                                asp.append("monotonicity")
                        except Exception:
                            pass
                    if bool(info["success"]) != exp[5]:
                        asp.append("success_lost" if exp[5] else "success_gained")
                    if env.last_obs.tensor.tobytes() != exp[1] or np.asarray(o).tobytes() != exp[1]:
                        asp.append("obs")
                    if float(r) != exp[2]:
                        asp.append("reward")
                    if bool(d) != exp[3]:
                        asp.append("done")
                    want_tr = t.step_limit is not None and steps >= t.step_limit
                    if bool(tr) != want_tr or env.steps != steps:
                        asp.append("truncated")
                    if json.dumps(_canon(info), sort_keys=True) != exp[4]:
                        asp.append("info")
                    if asp:
                        return self._disc(prog, i, asp + ["step_vs_table"],
                                          {"reward": float(r), "expected_reward": exp[2], "done": bool(d), "expected_done": exp[3],
                                           "truncated": bool(tr), "expected_truncated": want_tr,
                                           "success": bool(info["success"]), "expected_success": exp[5],
                                           "steps_attr": int(env.steps), "steps_since_reset": steps})
                    kept["prev"] = prev
                    cur = k2
                elif kind == "G":
                    ref, a_idx, side = op[1], op[2], op[3]
                    arg = self.args[a_idx]
                    st = env.current_state if ref == "cur" else kept.get(ref)
                    if arg is None or st is None:
                        continue
                    rk = st.tensor.tobytes()
                    m = t.mactions[a_idx]
                    c_obj, c_b = env.current_state, env.current_state.tensor.tobytes()
                    l_obj, l_b = env.last_obs, env.last_obs.tensor.tobytes()
                    n0 = env.steps
                    sm.arm(draw_values(m["prob"])[side])
                    s2, o, r, d, info = env.generative_step(st, arg)
                    exp = t.T[(rk, a_idx, side)]
                    asp = []
                    if s2.tensor.tobytes() != exp[0]:
                        asp.append("next_state")
                    if bool(info["success"]) != exp[5]:
                        asp.append("success_lost" if exp[5] else "success_gained")
                    if o.tensor.tobytes() != exp[1]:
                        asp.append("obs")
                    if float(r) != exp[2]:
                        asp.append("reward")
                    if bool(d) != exp[3]:
                        asp.append("done")
                    if json.dumps(_canon(info), sort_keys=True) != exp[4]:
                        asp.append("info")
                    if asp:
                        asp.append("step_vs_table")
                    if env.current_state is not c_obj or c_obj.tensor.tobytes() != c_b or env.last_obs is not l_obj \
                            or l_obj.tensor.tobytes() != l_b or env.steps != n0 or st.tensor.tobytes() != rk \
                            or s2 is st or np.shares_memory(s2.tensor, st.tensor):
                        asp.append("purity")
                    if asp:
                        return self._disc(prog, i, asp, {"success": bool(info["success"]), "expected_success": exp[5],
                                                          "reward": float(r), "expected_reward": exp[2]})
                elif kind == "C":
                    # the program goes on with a deep copy of the environment (a snapshot for look-ahead); where copying
                    # is not supported at all the operation is skipped - a copy that exists is an environment object
                    import copy as _copy
                    try:
                        clone = _copy.deepcopy(env)
                    except Exception:
                        clone = None
                    if clone is not None:
                        if clone.current_state.tensor.tobytes() != env.current_state.tensor.tobytes() or clone.steps != env.steps:
                            return self._disc(prog, i, ["copy"], {"steps": int(clone.steps)})
                        self.env = env = clone
                        if "K0" in kept:
                            kept = {"K0": kept["K0"]}
                elif kind == "V":
                    # observers: the readable renderings of the current observation and of the current state GIVEN AS AN
                    # ARRAY (the documented ndarray form); then a garbage collection. Nothing may change.
                    import contextlib, io, gc
                    c_obj, c_b = env.current_state, env.current_state.tensor.tobytes()
                    l_obj, l_b, n0 = env.last_obs, env.last_obs.tensor.tobytes(), env.steps
                    rng0 = np.random.get_state()[1].tobytes()
                    with contextlib.redirect_stdout(io.StringIO()):
                        env.render_obs("ansi")
                        env.render_state("ansi", env.current_state.numpy())
                    gc.collect()
                    asp = []
                    if env.current_state is not c_obj or c_obj.tensor.tobytes() != c_b or env.last_obs is not l_obj \
                            or l_obj.tensor.tobytes() != l_b or env.steps != n0:
                        asp.append("purity")
                    if np.random.get_state()[1].tobytes() != rng0:
                        asp.append("observer_consumed_randomness")
                    if asp:
                        return self._disc(prog, i, asp, {})
                elif kind == "I":
                    c_obj, c_b = env.current_state, env.current_state.tensor.tobytes()
                    l_obj, l_b, n0 = env.last_obs, env.last_obs.tensor.tobytes(), env.steps
                    s = env.generate_initial_state()
                    asp = []
                    if s.tensor.tobytes() != t.init_key:
                        asp.append("initial_state_helper")
                    if env.current_state is not c_obj or c_obj.tensor.tobytes() != c_b or env.last_obs is not l_obj \
                            or l_obj.tensor.tobytes() != l_b or env.steps != n0:
                        asp.append("purity")
                    if asp:
                        return self._disc(prog, i, asp, {})
                else:
                    raise HarnessError(f"unknown operation {op}")
                # kept state objects are the caller's: nothing may write to them
                for nm, st in kept.items():
                    if nm == "K0" and st.tensor.tobytes() != t.init_key:
                        return self._disc(prog, i, ["purity"], {"kept_state_modified": nm})
                if self.observe_mask and cur is not None:
                    mk = env.get_action_mask()
                    if [int(x) for x in mk] != t.mask[cur]:
                        return self._disc(prog, i, ["mask"], {"mask": [int(x) for x in mk], "expected": t.mask[cur]})
            except HarnessError:
                raise
            except Exception as e:
                import traceback
                tb = traceback.extract_tb(e.__traceback__)
                inside = tb[-1].filename if tb else ""
                if os.sep + "mc" + os.sep in inside and "nasim" not in inside:
                    raise HarnessError(f"apiseq machinery failed: {type(e).__name__}: {e}")
                return self._disc(prog, i, ["exception"], {"exception": type(e).__name__, "message": str(e)[:200],
                                                           "raised_in": inside})
        return None

    def _disc(self, prog, i, aspects, detail):
        return {"aspects": sorted(set(aspects)), "program": [list(o) for o in prog[:i + 1]], "op_index": i,
                "operation": list(prog[i]), "detail": detail}


# ----------------------------------------------------------------------------------------------- programs
def bounds(tier):
    if tier == "thorough":
        return {"L1": 7, "L2": 5, "Lb": 4, "refs": ("cur", "K0", "prev"), "probe_all": False, "pair_cap": 40000,
                "route_cap": 120}
    return {"L1": 6, "L2": 4, "Lb": 3, "refs": ("cur", "K0"), "probe_all": False, "pair_cap": 12000, "route_cap": 40}


def pair_programs(t, b):
    """(A): every route pair; shrinks L2 then L1 until the number of pairs is within the cap (reported)"""
    L1, L2 = b["L1"], b["L2"]
    while True:
        r1, r2 = t.routes(L1), t.routes(L2)
        if len(r1) * len(r2) * 4 <= b["pair_cap"] or (L1 <= 2 and L2 <= 2):
            break
        if L2 > 2 and L2 >= L1 - 1:
            L2 -= 1
        else:
            L1 -= 1
    progs = []
    idle_total = 0
    for p1 in r1:
        # the first episode may end with ONE more successful step that changes nothing in the state (a scan that finds
        # nothing new, a repeated exploit): invisible in the state, but something the object may remember
        k = t.init_key
        for a in p1:
            k = t.T[(k, a, "below")][0]
        idle = [a for a in range(len(t.actions)) if t.mactions[a] is not None and t.mactions[a]["type"] != "noop"
                and t.T[(k, a, "below")][0] == k and t.T[(k, a, "below")][5]]
        tails = [()] + [(("S", a, "below"),) for a in idle]
        idle_total += len(idle)
        for tail in tails:
            # ONE fresh environment object per first episode; all second episodes follow on it one after the other
            # (so the later ones are third, fourth ... episodes), once in each order
            for order in (r2, list(reversed(r2))):
                prog = (("R",),) + tuple(("S", a, "below") for a in p1) + tail
                for p2 in order:
                    prog += (("R",),) + tuple(("S", a, "below") for a in p2)
                progs.append(prog)
    return progs, {"L1": L1, "L2": L2, "routes1": len(r1), "routes2": len(r2), "idle_endings": idle_total}


def perturbation_groups(t, b, mode):
    """(B): groups (prefix program, [probe ops]); G probes share one run of the prefix, every S probe gets its own"""
    nA = len(t.actions)
    acts = [i for i in range(nA) if t.mactions[i] is not None]
    groups = []
    Lb = b["Lb"]
    routes = t.routes(Lb)
    while len(routes) > b["route_cap"] and Lb > 1:        # the bound actually used is reported
        Lb -= 1
        routes = t.routes(Lb)
    for p in routes:
        # the state reached by the route (expected)
        k = t.init_key
        for a in p:
            k = t.T[(k, a, "below")][0]
        X = []
        for a in acts:
            for side in SIDES:
                if t.mactions[a]["type"] == "noop" and side == "above":
                    continue
                X.append(("S", a, side))
                for ref in b["refs"]:
                    X.append(("G", ref, a, side))
        X += [("R",), ("I",), ("C",), ("V",)]
        ext = {a for a, _ in t.succ[k]}
        for x in X:
            xa = x[1] if x[0] == "S" else (x[2] if x[0] == "G" else None)
            rel = set(acts) if b["probe_all"] else ({xa} if xa is not None else set()) | set(p) | ext
            rel.discard(None)
            for tail in ((), (("R",),)):
                prefix = (("R",),) + tuple(("S", a, "below") for a in p) + (x,) + tail
                gp, sp = [], []
                for a in sorted(rel):
                    for side in SIDES:
                        if t.mactions[a]["type"] == "noop" and side == "above":
                            continue
                        sp.append(("S", a, side))
                        for ref in b["refs"]:
                            gp.append(("G", ref, a, side))
                groups.append((prefix, gp, sp))
    return groups, {"Lb": Lb, "routes": len(routes), "refs": list(b["refs"]), "probe_all": b["probe_all"]}


def undefined_vectors(spec):
    """parameter vectors that name an exploit / escalation the scenario does not define (decoded as a no-op)"""
    from .explore import param_expressible
    out = []
    nos, nsv, npr = len(spec["os"]), len(spec["services"]), len(spec["processes"])
    defined_e = {(e["service"], e["os"]) for e in spec["exploits"].values()}
    defined_p = {(e["process"], e["os"]) for e in spec["privescs"].values()}
    # [action type, subnet, host, os (0 = none), service, process]
    for osi in range(nos + 1):
        o = None if osi == 0 else spec["os"][osi - 1]
        for si, sv in enumerate(spec["services"]):
            if (sv, o) not in defined_e:
                out.append([0, 0, 0, osi, si, 0])
        for pi, pr in enumerate(spec["processes"]):
            if (pr, o) not in defined_p:
                out.append([1, 0, 0, osi, 0, pi])
    return out[:2]


# ----------------------------------------------------------------------------------------------- driver
def _scenario_job(args):
    spec_json, binding, mode_name, tier, part, nparts = args
    import_nasim()
    from .spec import spec_from_json
    spec = spec_from_json(spec_json) if "subnets" in spec_json else spec_json
    mode = MODES[mode_name]
    b = bounds(tier)
    t = Table(spec, binding, mode)
    out = {"scenario": spec.get("name"), "mode": mode_name, "states": len(t.states), "programs": 0, "ops": 0,
           "discrepancies": [], "bounds": {}, "outcomes": 0}
    seen = set()

    def record(d, runner):
        if d is None:
            return
        sig = (tuple(d["aspects"]), tuple(d["operation"][:1]))
        if sig in seen:
            return
        seen.add(sig)
        d.update({"scenario": spec_json, "binding": binding, "mode": mode_name})
        out["discrepancies"].append(d)

    progs, info_a = pair_programs(t, b)
    groups, info_b = perturbation_groups(t, b, mode)
    out["bounds"] = {"pairs": info_a, "perturbations": info_b}
    # one environment object per worker share: programs run one after the other on the SAME object (each starts with
    # a reset), so whatever survives a reset is in play as well
    # a FRESH environment object per first episode (A) and per (route, perturbation) group (B): anything the object
    # remembers from its FIRST use of something is then really a first use; inside one program / group the object is
    # reused across resets, so whatever survives a reset is in play as well
    nops = 0
    for j, prog in enumerate(progs):
        if j % nparts != part:
            continue
        runner = Runner(t, mode)
        out["programs"] += 1 + sum(1 for o in prog[1:] if o[0] == "R")
        record(runner.run(prog), runner)
        nops += runner.ops
    for j, (prefix, gp, sp) in enumerate(groups):
        if j % nparts != part:
            continue
        runner = Runner(t, mode)
        out["programs"] += 1 + len(sp)
        whole = prefix + tuple(gp)
        for s in sp:
            whole += prefix + (s,)
        record(runner.run(whole), runner)
        nops += runner.ops
    runner = Runner(t, mode)
    if mode_name == "param" and t.step_limit is not None:
        for v in undefined_vectors(spec):
            for kind in ("list", "np"):
                for p in t.routes(1):
                    for pos in range(len(p) + 1):
                        body = [("S", a, "below") for a in p]
                        body.insert(pos, ("U", tuple(v), kind))
                        prog = (("R",),) + tuple(body) + (("S", len(t.actions) - 1, "below"),) * 2
                        out["programs"] += 1
                        record(runner.run(prog), runner)
    out["ops"] = nops + runner.ops
    # confirmation: every discrepancy is re-run ALONE on a fresh environment object; if it does not reproduce there it
    # needs the history of the shared object - the record then carries that fact (and is still a real difference
    # between two runs of the same calls, replayed by re-running the whole share)
    for d in out["discrepancies"]:
        r2 = Runner(t, mode).run(tuple(tuple(o) for o in d["program"]))
        d["reproduces_alone_on_a_fresh_environment"] = r2 is not None
        d["share"] = [part, nparts]
    return out


def api_entries(tier):
    from .family import api_specs, shipped_spec
    ents = []
    for sp in api_specs():
        ents.append((sp, "dict"))
    ents.append((shipped_spec("tiny"), "shipped"))
    return ents


def run(tier, mode_names=("po",), want_props=None):
    """-> (coverage dict, discrepancies)"""
    from .spec import spec_to_json
    t0 = time.time()
    jobs = []
    nparts = 16
    for sp, binding in api_entries(tier):
        sj = spec_to_json(sp)
        for mn in mode_names:
            if mn == "param" and sp.get("step_limit") is None and tier != "thorough":
                continue
            for part in range(nparts):
                jobs.append((sj, binding, mn, tier, part, nparts))
    with mp.get_context("fork").Pool(processes=ncpu()) as pool:
        results = list(pool.imap_unordered(_scenario_job, jobs, chunksize=1))
    disc = [d for r in results for d in r["discrepancies"]]
    per = collections.defaultdict(lambda: {"programs": 0, "operations": 0})
    for r in results:
        k = f"{r['scenario']}|{r['mode']}"
        per[k]["programs"] += r["programs"]
        per[k]["operations"] += r["ops"]
        per[k]["states"] = r["states"]
        per[k]["bounds"] = r["bounds"]
    if not disc and (sum(r["programs"] for r in results) < 1000 or any(v.get("states", 0) < 4 for v in per.values())):
        raise HarnessError("vacuous API-sequence exploration (hardly any state / route to drive)")
    cov = {"api_programs": sum(r["programs"] for r in results), "api_operations": sum(r["ops"] for r in results),
           "api_per_scenario_mode": dict(per), "api_wall_s": round(time.time() - t0, 1)}
    return cov, disc


MODES_FOR = {"C06": ("po", "param"), "C08": ("po", "fo", "sub"), "C12": ("po", "param"), "C13": ("po", "fo")}


def check_part(pid, tier):
    """the API-sequence part of property `pid`'s check -> (coverage dict, violation records)"""
    modes = MODES_FOR.get(pid, ("po",))
    if tier == "thorough" and pid in ("C08", "C13"):
        modes = modes + ("po2d",)
    cov, disc = run(tier, modes)
    for d in disc:
        d["tier"] = tier
    if pid == "C12":
        # a disagreement BETWEEN the modes: programs that go wrong with parameter vectors although the same calls with
        # flat indices on the same kind of object match the table
        bad_flat = {(json.dumps(d["scenario"], sort_keys=True), json.dumps(d["program"])) for d in disc if d["mode"] == "po"}
        out = []
        for d in disc:
            if d["mode"] != "param" or (json.dumps(d["scenario"], sort_keys=True), json.dumps(d["program"])) in bad_flat:
                continue
            v = dict(d)
            v.update({"property": "C12", "engine": "apiseq",
                      "kind": "parameterised_mode_disagrees_with_flat_mode_on_an_api_sequence:" + "+".join(d["aspects"])})
            out.append(v)
        return cov, out
    vs = violations_for(pid, disc)
    if pid == "C14":
        vs = [v for v in vs if v["operation"][0] in ("S", "R", "U", "V")]
    return cov, vs


def violations_for(pid, disc):
    out = []
    for d in disc:
        props = set()
        for a in d["aspects"]:
            props.update(ASPECT_PROPS.get(a, []))
        if pid in props:
            v = dict(d)
            v.update({"property": pid, "engine": "apiseq",
                      "kind": "environment_object_history_changes_result:" + "+".join(a for a in d["aspects"] if pid in ASPECT_PROPS.get(a, []))})
            out.append(v)
    return out


def replay(rec):
    """re-run the recorded program alone on a fresh environment object (and, if it needs the shared object's
    history, the whole share of programs it was found in)"""
    import_nasim()
    from .spec import spec_from_json
    sj = rec["scenario"]
    spec = spec_from_json(sj) if "subnets" in sj else sj
    mode = MODES[rec["mode"]]
    t = Table(spec, rec["binding"], mode)
    d = Runner(t, mode).run(tuple(tuple(o) for o in rec["program"]))
    if d is not None:
        return [d]
    tier = rec.get("tier", "quick")
    part, nparts = rec.get("share", [0, 1])
    sjson = sj
    r = _scenario_job((sjson, rec["binding"], rec["mode"], tier, part, nparts))
    return [x for x in r["discrepancies"] if set(x["aspects"]) & set(rec["aspects"])]
