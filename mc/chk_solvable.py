"""C16 — generated and shipped scenarios are always solvable.

Every scenario produced by the deviation-bounded exploration of the generator (mc/genexplore.py: default
runs and every forced-RNG-answer run), every benchmark parameter set x seeds and all nine shipped YAML
files is decided by: (1) the monotone closure of the reference model with every draw succeeding (a plan);
(2) replaying that plan on the REAL environment through step() with the draw seam forced to succeed —
every step must succeed and the last must return terminated=True; (3) for every family scenario small
enough for the explicit-state explorer the closure verdict is cross-checked against the complete state
graph ("a goal state is reachable"), which validates the oracle itself.
"""
import multiprocessing as mp
import time

from .common import HarnessError, import_nasim, ncpu, ROOT, USER
from .evidence import finish, rotate
from . import genexplore as gx
from .chk_generator import jobs_for, classify
from .family import SHIPPED_ALL, shipped_path, shipped_spec
from .model import Model, CLASS_TO_TYPE
from .seams import DrawSeam
from .spec import spec_from_scenario, spec_to_json
from .sweep import run_family, seam

RULE = ("scenarios = all generator executions explored with <= 1 forced RNG deviation over the parameter grid and "
        "benchmark sets + 9 shipped files; each decided by model closure plan + replay on the real environment; "
        "family scenarios cross-checked against complete state graphs; non-trivial = distinct scenario whose plan has "
        ">= 3 steps and was replayed on the real environment")


def diagnose(model, ms):
    """which clause of the statement is broken in the closure state"""
    spec = model.spec
    out = []
    for a in model.sensitive:
        h = spec["hosts"][a]
        vul = [n for n, e in spec["exploits"].items() if e["service"] in h["services"] and (e["os"] is None or e["os"] == h["os"])]
        if not vul:
            out.append(f"sensitive host {a} is not vulnerable to any exploit")
        elif not any(spec["exploits"][n]["access"] >= ROOT for n in vul) and not any(
                (e["process"] in h["processes"]) and (e["os"] is None or e["os"] == h["os"]) and e["access"] >= ROOT
                for e in spec["privescs"].values()):
            out.append(f"sensitive host {a} can only be held at user level (no applicable root exploit / escalation)")
        elif ms[model.row[a]][3] < ROOT:
            st = ms[model.row[a]]
            out.append(f"sensitive host {a} vulnerable but never rooted: reachable={st[1]} discovered={st[2]} compromised={st[0]}")
    comp_sub = {model.addrs[i][0] for i in range(model.n) if ms[i][0]}
    for s in range(1, model.nsub):
        if s not in comp_sub:
            out.append(f"no host of subnet {s} could be compromised")
    return out


def decide(sc, spec=None):
    """-> (ok, info dict). Model closure + replay on the real environment."""
    import_nasim()
    from nasim.envs import NASimEnv
    spec = spec or spec_from_scenario(sc)
    bad_os = [a for a, h in spec["hosts"].items() if not isinstance(h["os"], str)]
    if bad_os:
        return None, {"skipped": "host without exactly one OS (C15 matter)"}
    model = Model(spec)
    ms, plan = model.closure_plan()
    if not model.goal(ms):
        return False, {"stage": "model_closure", "diagnosis": diagnose(model, ms)[:5], "plan_length": len(plan)}
    # shorten: stop at the first prefix that reaches the goal
    env = NASimEnv(sc, fully_obs=False, flat_actions=True, flat_obs=True)
    index = {}
    for i, a in enumerate(env.action_space.actions):
        index[(CLASS_TO_TYPE[type(a).__name__], a.name, (int(a.target[0]), int(a.target[1])))] = i
    sm = seam()
    env.reset()
    done = False
    steps = 0
    for act in plan:
        i = index.get((act["type"], act["name"], tuple(act["target"])))
        if i is None:
            return False, {"stage": "replay", "problem": f"plan action {act['name']}@{act['target']} not in the flat action space"}
        sm.arm(1e-12 if act["prob"] > 0 else 0.5)
        o, r, done, trunc, info = env.step(i)
        steps += 1
        if not info["success"]:
            return False, {"stage": "replay", "problem": f"plan step {steps} ({act['type']} {act['name']} on {act['target']}) "
                                                         f"failed on the real environment", "info_flags": {k: bool(info[k]) for k in ("connection_error", "permission_error", "undefined_error")}}
        if done:
            break
    if not done:
        return False, {"stage": "replay", "problem": "plan replayed successfully but the terminal flag was never set",
                       "plan_length": len(plan)}
    # the same plan when the scenario's step limit is EXACTLY its length (generate(..., step_limit=k) with the k of the
    # shortest solution found): the goal-reaching step is also the last permitted one and must still be terminal
    try:
        import nasim.scenarios.utils as u
        d2 = dict(sc.scenario_dict); d2[u.STEP_LIMIT] = steps
        from nasim.scenarios import Scenario
        sc2 = Scenario(d2, name="verif", generated=getattr(sc, "generated", False))
        env2 = NASimEnv(sc2, fully_obs=False, flat_actions=True, flat_obs=True)
    except Exception:
        env2 = None
    if env2 is not None:
        env2.reset()
        done2 = False
        for act in plan[:steps]:
            i = index.get((act["type"], act["name"], tuple(act["target"])))
            sm.arm(1e-12 if act["prob"] > 0 else 0.5)
            o, r, done2, trunc, info = env2.step(i)
        if not done2:
            return False, {"stage": "replay", "problem": "with step_limit equal to the plan length the goal-reaching (last permitted) "
                                                         "step does not set the terminal flag", "plan_length": steps}
    return True, {"plan_length": steps}


def _job(args):
    params, max_dev, dev_cap = args
    import_nasim()
    out = {"violations": [], "scenarios": 0, "nontrivial": 0, "not_returned": 0, "skipped": 0, "samples": []}
    seen = set()

    def on_result(schedule, run, sc, exc):
        if exc is not None or sc is None:
            out["not_returned"] += 1      # termination / exceptions are C15's matter
            return
        ok, info = decide(sc)
        if ok is None:
            out["skipped"] += 1
            return
        out["scenarios"] += 1
        if ok and info["plan_length"] >= 3:
            out["nontrivial"] += 1
        if ok and len(out["samples"]) < 1:
            out["samples"].append({"params": {k: params[k] for k in ("num_hosts", "num_services", "seed")},
                                   "schedule": {str(k): v for k, v in schedule.items()}, "plan_length": info["plan_length"]})
        if not ok:
            key = (info.get("stage"), str(info.get("diagnosis", info.get("problem")))[:60])
            if key in seen:
                return
            seen.add(key)
            out["violations"].append({"property": "C16", "kind": "unsolvable_generated_scenario:" + info["stage"],
                                      "engine": "genexplore", "params": dict(params),
                                      "schedule": {str(k): v for k, v in schedule.items()}, "detail": info})

    gx.explore_params(params, max_dev=max_dev, on_result=on_result, dev_cap=dev_cap)
    gx.uninstall()
    return out


def post_explore(ctx, res, pids, opts):
    """cross-check of the closure oracle against the complete state graph (family scenarios)"""
    model = ctx.model
    goal_in_graph = any(model.goal(ctx.decode(k, s.tensor)) for s, k in zip(res["order"], res["seen"].keys()))
    ms, plan = model.closure_plan()
    verdict = model.goal(ms)
    mismatch = 0
    if verdict != goal_in_graph:
        mismatch = 1
    # the closure state must be the unique maximal state of the graph
    elif not res.get("capped") and ms not in {ctx.decode(k, s.tensor) for s, k in zip(res["order"], res["seen"].keys())}:
        mismatch = 1
    return {"crosschecked": 1, "solvable": int(verdict), "oracle_mismatch": mismatch}


def run(pid, tier):
    t0 = time.time()
    import_nasim()
    import nasim
    # ---- (3) oracle validation on complete graphs
    from .family import family as _fam
    complete = [e for e in _fam("quick") if not e[0].get("_path_only")]
    agg, _, errors = run_family(["C16"], "quick", {"post": ["chk_solvable"]}, entries=complete)
    if errors:
        raise HarnessError("; ".join(errors[:3]))
    cross = agg.get("extra", {}).get("chk_solvable", {})
    oracle_mismatches = int(cross.get("oracle_mismatch", 0))
    # ---- shipped files
    violations, shipped_ok = [], 0
    for n in SHIPPED_ALL:
        sc = nasim.load_scenario(shipped_path(n), name=n)
        ok, info = decide(sc, spec=shipped_spec(n))
        if ok:
            shipped_ok += 1
        else:
            violations.append({"property": "C16", "kind": "unsolvable_shipped_scenario:" + str(info.get("stage")),
                               "engine": "shipped", "scenario_name": n, "detail": info})
    # ---- generator exploration
    jobs = jobs_for(tier)
    with mp.get_context("fork").Pool(processes=ncpu()) as pool:
        results = list(pool.imap_unordered(_job, jobs, chunksize=1))
    scen = sum(r["scenarios"] for r in results)
    violations += [v for r in results for v in r["violations"]]
    samples = rotate([s for r in results for s in r["samples"]], 4)
    cov = {
        "states": scen + len(SHIPPED_ALL), "transitions": scen + len(SHIPPED_ALL),
        "traces_validated_against_impl": scen + shipped_ok,
        "evaluations": scen + len(SHIPPED_ALL), "distinct_nontrivial": sum(r["nontrivial"] for r in results) + shipped_ok,
        "rule": RULE, "samples": samples + [{"shipped": SHIPPED_ALL}], "exhaustive": True,
        "generated_scenarios_decided": scen, "shipped_scenarios": len(SHIPPED_ALL),
        "generator_executions_without_scenario(C15 matter)": sum(r["not_returned"] for r in results),
        "oracle_crosschecked_on_complete_state_graphs": int(cross.get("crosschecked", 0)),
        "of_which_solvable": int(cross.get("solvable", 0)),
        "oracle_vs_graph_mismatches": oracle_mismatches,
        "bound": "generator: deviation bound 1 over the parameter grid; plans replayed through step() with forced-success draws",
        "note": "states/transitions = scenarios decided / plans replayed",
    }
    if oracle_mismatches and not violations:
        # model closure and complete state graph disagree on a family scenario and nothing concrete was found on
        # generated / shipped scenarios: either the oracle or the dynamics is wrong - not a pass, not a violation
        raise HarnessError(f"closure oracle disagrees with the complete state graph on {oracle_mismatches} family scenario(s)")
    assume = ["'provided its stochastic actions succeed': every draw is forced below the action's probability; probability-0 actions are never used by a plan",
              "the closure is the unique maximal state because the model is monotone (validated against complete state graphs of the family)"]
    return finish(pid, tier, cov, violations, assume, t0)


def replay(pid, rec):
    import_nasim()
    import nasim
    if rec.get("engine") == "shipped":
        n = rec["scenario_name"]
        ok, info = decide(nasim.load_scenario(shipped_path(n), name=n), spec=shipped_spec(n))
        return [] if ok else [{"kind": rec["kind"], "detail": info}]
    params = rec["params"]
    schedule = {int(k): v for k, v in rec.get("schedule", {}).items()}
    run_, sc, exc = gx.execute(params, schedule)
    gx.uninstall()
    if sc is None:
        return []
    ok, info = decide(sc)
    return [] if ok or ok is None else [{"kind": rec["kind"], "detail": info}]
