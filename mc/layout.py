"""Independent decoder for state / observation arrays, written from the *documented* layout
(HostVector docstring + Observation docstring), never from HostVector's own index constants:

  [ subnet one-hot (bounds[0]) | host one-hot (bounds[1]) | compromised, reachable, discovered,
    value, discovery value, access | one flag per OS | per service | per process ]   (scenario order)

  observation = host rows + one final auxiliary row: success, connection error, permission error,
  undefined error, rest zero.
"""
import numpy as np

from .spec import all_addresses


class Layout:
    def __init__(self, spec):
        b = spec.get("address_space_bounds")
        if b is None:
            b = (len(spec["subnets"]) + 1, max(spec["subnets"]))
        self.bounds = (int(b[0]), int(b[1]))
        self.os = list(spec["os"])
        self.services = list(spec["services"])
        self.processes = list(spec["processes"])
        self.addrs = all_addresses(spec)          # documented host order: subnet by subnet
        self.row_of = {a: i for i, a in enumerate(self.addrs)}
        o = 0
        self.subnet_sl = slice(o, o + self.bounds[0]); o += self.bounds[0]
        self.host_sl = slice(o, o + self.bounds[1]); o += self.bounds[1]
        self.compromised = o
        self.reachable = o + 1
        self.discovered = o + 2
        self.value = o + 3
        self.discovery_value = o + 4
        self.access = o + 5
        o += 6
        self.os_sl = slice(o, o + len(self.os)); o += len(self.os)
        self.srv_sl = slice(o, o + len(self.services)); o += len(self.services)
        self.proc_sl = slice(o, o + len(self.processes)); o += len(self.processes)
        self.width = o
        self.nhosts = len(self.addrs)
        self.status_sl = slice(self.compromised, self.compromised + 3)
        # feature groups -> column index lists
        self.groups = {
            "address": list(range(0, self.bounds[0] + self.bounds[1])),
            "compromised": [self.compromised],
            "reachable": [self.reachable],
            "discovered": [self.discovered],
            "value": [self.value],
            "discovery_value": [self.discovery_value],
            "access": [self.access],
            "os": list(range(self.os_sl.start, self.os_sl.stop)),
            "services": list(range(self.srv_sl.start, self.srv_sl.stop)),
            "processes": list(range(self.proc_sl.start, self.proc_sl.stop)),
        }
        self.config_cols = (self.groups["address"] + self.groups["value"] + self.groups["discovery_value"]
                            + self.groups["os"] + self.groups["services"] + self.groups["processes"])

    def bind_rows(self, tensor):
        """Row order is not part of the documented layout: read each row's address from its
        one-hot cells (documented positions) and index hosts by that. Returns False when the
        rows do not carry exactly the scenario's addresses (a C09 matter)."""
        t = np.asarray(tensor)
        if t.ndim != 2 or t.shape[0] < self.nhosts or t.shape[1] != self.width:
            return False
        addrs = []
        for i in range(self.nhosts):
            a = self.decode_row(t[i])["address"]
            addrs.append(a)
        if None in addrs or sorted(addrs) != sorted(self.addrs):
            return False
        self.addrs = addrs
        self.row_of = {a: i for i, a in enumerate(addrs)}
        return True

    # ---- dynamic status
    def status(self, tensor):
        """-> tuple per host (compromised, reachable, discovered, access) as ints, in row order"""
        t = np.asarray(tensor)
        st = t[: self.nhosts, self.status_sl]
        ac = t[: self.nhosts, self.access]
        return tuple((int(r[0]), int(r[1]), int(r[2]), int(a)) for r, a in zip(st.tolist(), ac.tolist()))

    def status_is_clean(self, tensor):
        """all status cells are exactly representable members of their domain"""
        t = np.asarray(tensor)[: self.nhosts]
        st = t[:, self.status_sl]
        ac = t[:, self.access]
        return bool(np.isin(st, (0.0, 1.0)).all() and np.isin(ac, (0.0, 1.0, 2.0)).all())

    # ---- configuration
    def decode_row(self, row):
        """decode one host row into a dict (address None if the one-hots are not one-hot)"""
        row = np.asarray(row)
        sub = row[self.subnet_sl]
        hst = row[self.host_sl]
        addr = None
        if (sub == 1).sum() == 1 and (hst == 1).sum() == 1 and (sub != 0).sum() == 1 and (hst != 0).sum() == 1:
            addr = (int(np.argmax(sub)), int(np.argmax(hst)))
        return {
            "address": addr,
            "compromised": float(row[self.compromised]),
            "reachable": float(row[self.reachable]),
            "discovered": float(row[self.discovered]),
            "value": float(row[self.value]),
            "discovery_value": float(row[self.discovery_value]),
            "access": float(row[self.access]),
            "os": {n: float(v) for n, v in zip(self.os, row[self.os_sl].tolist())},
            "services": {n: float(v) for n, v in zip(self.services, row[self.srv_sl].tolist())},
            "processes": {n: float(v) for n, v in zip(self.processes, row[self.proc_sl].tolist())},
        }

    def expected_config_row(self, spec, addr):
        """the constant (configuration) cells of a host row as the documentation defines them"""
        from .spec import host_value
        row = np.zeros(self.width, dtype=np.float32)
        row[self.subnet_sl.start + addr[0]] = 1
        row[self.host_sl.start + addr[1]] = 1
        h = spec["hosts"][addr]
        row[self.value] = host_value(spec, addr)
        row[self.discovery_value] = float(h.get("discovery_value", 0))
        for i, o in enumerate(self.os):
            row[self.os_sl.start + i] = 1.0 if o == h["os"] else 0.0
        for i, s in enumerate(self.services):
            row[self.srv_sl.start + i] = 1.0 if s in h["services"] else 0.0
        for i, p in enumerate(self.processes):
            row[self.proc_sl.start + i] = 1.0 if p in h["processes"] else 0.0
        return row

    def expected_config_matrix(self, spec):
        return np.stack([self.expected_config_row(spec, a) for a in self.addrs])
