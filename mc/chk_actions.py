"""C11 — action spaces enumerate exactly the scenario's actions.

(1) flat list vs. the action multiset built from the scenario text (field by field), size, no duplicates;
(2) identical index->action mapping for two environments in this process and for one built in a fresh
    subprocess under several PYTHONHASHSEED values;
(3) EVERY vector of the parameterised space decodes without error to the documented action, which is the
    no-op or a member of the flat set;
(4) the action mask in every reachable state, reached through REAL reset()/step() histories (every
    BFS-spanning-tree history), plus a reset in between.
"""
import itertools
import json
import os
import subprocess
import sys
import time

import numpy as np

from .common import HarnessError, import_nasim, REPO, VERIF
from .evidence import finish, rotate
from .model import CLASS_TO_TYPE
from .seams import draw_values
from .spec import spec_to_json
from .sweep import run_family, entry_to_json

RULE = ("flat list vs scenario text per family scenario; every parameterised vector decoded; mask after every "
        "BFS-tree history replayed with real step()/reset(); cross-process action-list fingerprint under "
        "PYTHONHASHSEED 0,1,2; non-trivial = parameterised vector decoding to a real (non no-op) action, or mask "
        "query in a state where some host is undiscovered")
MAX_VECTORS = 200000
TYPE_TABLE = ["exploit", "privesc", "service_scan", "os_scan", "subnet_scan", "process_scan"]


def action_fields(a):
    """comparable description of an implementation Action"""
    typ = CLASS_TO_TYPE[type(a).__name__]
    d = {"type": typ, "target": (int(a.target[0]), int(a.target[1])), "cost": float(a.cost), "prob": float(a.prob),
         "req_access": int(a.req_access)}
    if typ == "exploit":
        d.update(service=a.service, os=a.os, access=int(a.access))
    if typ == "privesc":
        d.update(process=a.process, os=a.os, access=int(a.access))
    return d


def model_fields(m):
    d = {"type": m["type"], "target": tuple(m["target"]), "cost": float(m["cost"]), "prob": float(m["prob"]),
         "req_access": int(m["req_access"])}
    if m["type"] == "exploit":
        d.update(service=m["service"], os=m["os"], access=int(m["access"]))
    if m["type"] == "privesc":
        d.update(process=m["process"], os=m["os"], access=int(m["access"]))
    return d


def fingerprint_actions(env):
    return [json.dumps({**action_fields(a), "name": a.name}, sort_keys=True, default=str)
            for a in env.action_space.actions]


def post_explore(ctx, res, pids, opts):
    import_nasim()
    from nasim.envs import NASimEnv
    from nasim.envs.action import NoOp
    spec, model, seam = ctx.spec, ctx.model, ctx.seam
    counts = {"flat_actions": 0, "param_vectors": 0, "param_real_actions": 0, "mask_queries": 0,
              "mask_nontrivial": 0, "param_spaces_capped": 0}

    def rep(kind, detail, key=None):
        ctx.report("C11", kind, key=key, detail=detail)

    # ------------------------------------------------------------------ (1) flat list vs scenario text
    env = NASimEnv(ctx.scenario, fully_obs=False, flat_actions=True, flat_obs=True)
    flat = list(env.action_space.actions)
    want = model.actions()
    counts["flat_actions"] += len(flat)
    adv = int(ctx.scenario.get_action_space_size())
    if not (len(flat) == int(env.action_space.n) == adv == len(want)):
        rep("flat_space_size_mismatch", {"len(actions)": len(flat), "space.n": int(env.action_space.n),
                                         "scenario.get_action_space_size": adv, "scenario_text_defines": len(want)})
    got_keys = {}
    for i, a in enumerate(flat):
        k = (CLASS_TO_TYPE[type(a).__name__], a.name, (int(a.target[0]), int(a.target[1])))
        if k in got_keys:
            rep("duplicate_flat_action", {"indices": [got_keys[k], i], "action": str(a)})
        got_keys[k] = i
    want_keys = {(m["type"], m["name"], tuple(m["target"])): m for m in want}
    missing = [k for k in want_keys if k not in got_keys]
    extra = [k for k in got_keys if k not in want_keys]
    if missing or extra:
        rep("flat_space_is_not_the_scenario's_action_set", {"missing": [str(k) for k in missing[:6]],
                                                           "unexpected": [str(k) for k in extra[:6]]})
    for k, i in got_keys.items():
        if k in want_keys:
            f_impl, f_text = action_fields(flat[i]), model_fields(want_keys[k])
            if f_impl != f_text:
                diff = {x: (f_impl.get(x), f_text.get(x)) for x in set(f_impl) | set(f_text) if f_impl.get(x) != f_text.get(x)}
                rep("flat_action_fields_differ_from_scenario_definition", {"index": i, "action": str(k), "impl_vs_text": diff})
                break
    # ------------------------------------------------------------------ (1b) ... and still are after heavy use:
    # ctx.env executed every (state, action, draw) of the state graph (incl. re-exploits of compromised hosts)
    used = list(ctx.env.action_space.actions)
    for i, a in enumerate(used):
        k = (CLASS_TO_TYPE[type(a).__name__], a.name, (int(a.target[0]), int(a.target[1])))
        if k in want_keys and action_fields(a) != model_fields(want_keys[k]):
            f_impl, f_text = action_fields(a), model_fields(want_keys[k])
            diff = {x: (f_impl.get(x), f_text.get(x)) for x in set(f_impl) | set(f_text) if f_impl.get(x) != f_text.get(x)}
            rep("flat_action_definition_changed_while_the_environment_was_used",
                {"index": i, "action": str(k), "impl_vs_text": diff})
            break
    if fingerprint_actions(env) != fingerprint_actions(ctx.env):
        rep("index_to_action_mapping_differs_between_a_used_and_a_fresh_environment", {})
    # ------------------------------------------------------------------ (2) same mapping for every env (in-process)
    env_b = NASimEnv(ctx.scenario, fully_obs=True, flat_actions=True, flat_obs=False)
    if fingerprint_actions(env) != fingerprint_actions(env_b):
        rep("index_to_action_mapping_differs_between_environments", {})
    # ------------------------------------------------------------------ (3) parameterised space, every vector
    penv = NASimEnv(ctx.scenario, fully_obs=False, flat_actions=False, flat_obs=True)
    psp = penv.action_space
    nvec = [int(x) for x in psp.nvec]
    subnets = spec["subnets"]
    doc_nvec = [6, len(subnets), max(subnets), len(spec["os"]) + 1, len(spec["services"]), len(spec["processes"])]
    if nvec != doc_nvec:
        rep("parameterised_space_dimensions_differ_from_documentation", {"nvec": nvec, "documented": doc_nvec})
    flat_field_list = [action_fields(a) for a in flat]
    total = int(np.prod(nvec))
    vec_iter = itertools.product(*[range(n) for n in nvec])
    if total > MAX_VECTORS:
        counts["param_spaces_capped"] += 1
        vec_iter = itertools.islice(vec_iter, MAX_VECTORS)
    e_pairs = {}
    for n, e in spec["exploits"].items():
        e_pairs.setdefault((e["service"], e["os"]), []).append(n)
    p_pairs = {}
    for n, e in spec["privescs"].items():
        p_pairs.setdefault((e["process"], e["os"]), []).append(n)
    for vec in vec_iter:
        counts["param_vectors"] += 1
        try:
            a = psp.get_action(list(vec))
        except Exception as e:
            rep("parameterised_vector_does_not_decode", {"vector": list(vec), "exception": f"{type(e).__name__}: {str(e)[:120]}"})
            break
        # a vector held by the caller (the sampler returns int64 arrays) must survive decoding
        arr = np.array(vec, dtype=np.int64)
        try:
            a_arr1 = psp.get_action(arr)
            a_arr2 = psp.get_action(arr)
            same = (type(a_arr1) is type(a) and type(a_arr2) is type(a)
                    and (isinstance(a, NoOp) or (action_fields(a_arr1) == action_fields(a) == action_fields(a_arr2))))
            # the space's own dtype is int64, but it also CONTAINS the same vector held in any other integer dtype
            # (MultiDiscrete.contains accepts them): every container of one vector decodes to the same action
            for dt in (np.uint8, np.int8, np.uint32):
                # only containers that can hold every bound of the space (an int8 array cannot even be compared with a
                # dimension of 170 under NumPy 2's scalar rules): anything narrower is not a container of this space
                if np.iinfo(dt).max >= max(int(x) for x in nvec):
                    a_dt = psp.get_action(np.array(vec, dtype=dt))
                    same = same and type(a_dt) is type(a) and (isinstance(a, NoOp) or action_fields(a_dt) == action_fields(a))
            if not np.array_equal(arr, np.array(vec)) or not same:
                rep("parameterised_vector_changed_or_decoded_differently_when_decoded_again",
                    {"vector": list(vec), "array_after_decoding": arr.tolist()})
                break
        except Exception as e:
            rep("parameterised_vector_does_not_decode", {"vector": list(vec), "as": "np.ndarray[int64] decoded twice",
                                                         "exception": f"{type(e).__name__}: {str(e)[:120]}"})
            break
        try:
            typ = TYPE_TABLE[vec[0]] if vec[0] < len(TYPE_TABLE) else None
            sub = vec[1] + 1
            tgt = (sub, vec[2] % subnets[sub - 1])
            os_ = None if vec[3] == 0 else spec["os"][vec[3] - 1]
            srv = spec["services"][vec[4]]
            proc = spec["processes"][vec[5]]
        except IndexError:
            continue    # vector outside the documented ranges (only when nvec itself is wrong; reported above)
        f = None if isinstance(a, NoOp) else action_fields(a)
        if typ in ("service_scan", "os_scan", "subnet_scan", "process_scan"):
            expect = model_fields(model.scan_action(typ, tgt))
            ok = (f == expect)
            names = None
        elif typ == "exploit":
            names = e_pairs.get((srv, os_), [])
            expect = [model_fields(model.exploit_action(n, tgt)) for n in names]
            ok = (f is None and isinstance(a, NoOp) and float(a.cost) == 0.0) if not names else (f in expect)
        else:
            names = p_pairs.get((proc, os_), [])
            expect = [model_fields(model.privesc_action(n, tgt)) for n in names]
            ok = (f is None and isinstance(a, NoOp) and float(a.cost) == 0.0) if not names else (f in expect)
        if f is not None:
            counts["param_real_actions"] += 1
            if f not in flat_field_list:
                rep("parameterised_vector_decodes_to_action_outside_the_flat_set", {"vector": list(vec), "decoded": str(a)})
                break
        if not ok:
            rep("parameterised_vector_decodes_to_wrong_action",
                {"vector": list(vec), "decoded": "NoOp" if f is None else {k: str(v) for k, v in f.items()},
                 "documented": str(expect)[:400]})
            break
    # ------------------------------------------------------------------ (4) mask along real histories
    keys = list(res["seen"].keys())
    addrs = model.addrs
    menv = NASimEnv(ctx.scenario, fully_obs=False, flat_actions=True, flat_obs=True)
    targets = [(int(a.target[0]), int(a.target[1])) for a in flat]

    def check_mask(ms, key, where):
        try:
            mask = menv.get_action_mask()
        except Exception as e:
            rep("get_action_mask_raises", {"exception": f"{type(e).__name__}: {str(e)[:120]}", "where": where}, key)
            return False
        counts["mask_queries"] += 1
        disc = {addrs[i] for i in range(len(addrs)) if ms[i][2]}
        if len(disc) < len(addrs):
            counts["mask_nontrivial"] += 1
        want_mask = [1 if t in disc else 0 for t in targets]
        m = np.asarray(mask)
        if m.shape != (len(flat),) or not np.issubdtype(m.dtype, np.integer) or m.tolist() != want_mask:
            bad = [i for i in range(min(len(want_mask), m.size)) if int(m.reshape(-1)[i]) != want_mask[i]][:6]
            rep("action_mask_wrong", {"where": where, "shape": list(m.shape), "dtype": str(m.dtype),
                                      "wrong_indices": bad,
                                      "wrong_targets": [str(targets[i]) for i in bad]}, key)
            return False
        return True

    ms0 = ctx.decode(keys[0], res["order"][0].tensor)
    budget = opts.get("mask_history_budget", 400)
    step_keys = keys if len(keys) <= budget else keys[:budget]
    for key in step_keys:
        hist = ctx.history_of(key)
        menv.reset()
        good = check_mask(ms0, keys[0], "after reset") if not hist else True
        cur = keys[0]
        for a_idx, side in hist:
            seam.arm(draw_values(ctx.mactions[a_idx]["prob"])[side])
            menv.step(a_idx)
        if not good:
            break
        kk = menv.current_state.tensor.tobytes()
        if kk != key:
            raise HarnessError(f"{ctx.name}: replay of a BFS history through step() diverged from the explored graph")
        if not check_mask(ctx.decode(key, menv.current_state.tensor), key, "after history via step()"):
            break
        if hist:
            menv.reset()
            if not check_mask(ms0, key, "after reset following the history"):
                break
    return counts


def _subprocess_fingerprints(entries, hashseeds):
    """action-list fingerprints of a slice of the family computed in fresh interpreters"""
    code = r"""
import sys, json, hashlib
sys.path.insert(0, %r)
from mc.sweep import entry_from_json, make_ctx
from mc.chk_actions import fingerprint_actions
out = {}
for ej in json.load(sys.stdin):
    spec, binding = entry_from_json(ej)
    ctx = make_ctx(spec, binding)
    out[ej["spec"]["name"] + "|" + binding] = hashlib.sha1("\n".join(fingerprint_actions(ctx.env)).encode()).hexdigest()
print(json.dumps(out))
""" % VERIF
    payload = json.dumps([entry_to_json(e) for e in entries])
    res = {}
    for hs in hashseeds:
        env = dict(os.environ)
        env["PYTHONHASHSEED"] = str(hs)
        p = subprocess.run(["/venv/bin/python", "-c", code], input=payload, capture_output=True, text=True, env=env)
        if p.returncode != 0:
            raise HarnessError("fingerprint subprocess failed: " + p.stderr[-400:])
        res[hs] = json.loads(p.stdout.strip().splitlines()[-1])
    return res


def run(pid, tier):
    t0 = time.time()
    from .family import family
    entries = family(tier)
    agg, violations, errors = run_family(["C11"], tier, {"post": ["chk_actions"]}, entries=entries)
    if errors:
        raise HarnessError("; ".join(errors[:3]))
    ex = agg.get("extra", {}).get("chk_actions", {})
    # cross-process mapping stability
    slice_ = [e for e in entries if e[1] in ("yaml", "dict", "shipped", "generated")]
    slice_ = slice_[:: max(1, len(slice_) // (60 if tier == "thorough" else 25))]
    fps = _subprocess_fingerprints(slice_, [0, 1, 2])
    extra_viol = []
    base = fps[0]
    for hs, d in fps.items():
        for k, v in d.items():
            if base.get(k) != v:
                name, binding = k.split("|")
                extra_viol.append({"property": "C11", "kind": "index_to_action_mapping_differs_between_processes",
                                   "engine": "subprocess", "scenario_name": name, "binding": binding,
                                   "detail": {"PYTHONHASHSEED": [0, hs]}})
    if int(ex.get("param_vectors", 0)) == 0 or int(ex.get("mask_queries", 0)) == 0:
        raise HarnessError("vacuous C11 run")
    samples = [{"scenario": r[0], "binding": r[1], "flat_actions": r[3] - 1, "states": r[4]} for r in rotate(agg["per_scenario"], 4)]
    cov = {
        "states": agg["states"], "transitions": agg["transitions"],
        "traces_validated_against_impl": int(ex.get("mask_queries", 0)),
        "evaluations": int(ex.get("flat_actions", 0)) + int(ex.get("param_vectors", 0)) + int(ex.get("mask_queries", 0)),
        "distinct_nontrivial": int(ex.get("param_real_actions", 0)) + int(ex.get("mask_nontrivial", 0)),
        "rule": RULE, "samples": samples,
        "exhaustive": int(ex.get("param_spaces_capped", 0)) == 0,
        "scenarios": agg["scenarios"],
        "flat_actions_compared": int(ex.get("flat_actions", 0)),
        "param_vectors_decoded": int(ex.get("param_vectors", 0)),
        "mask_queries_after_real_histories": int(ex.get("mask_queries", 0)),
        "cross_process_scenarios": len(slice_), "hash_seeds": [0, 1, 2],
        "family_features": agg["features"],
        "bound": f"every flat index; every parameterised vector (cap {MAX_VECTORS}); every BFS-tree history (<=400 per scenario in quick) through step()",
    }
    assume = ["process parameter of the parameterised space indexes the process list directly (as implemented; the class docstring's '0=None' for processes contradicts its own nvec)",
              "when several exploits share a (service, OS) pair any of them is accepted as the decoding of that pair"]
    # the mask after EVERY operation of every API program (mc/apiseq.py), against the discovered flags of the state
    from . import apiseq
    api_cov, api_viol = apiseq.check_part("C11", tier)
    cov["api_sequence_exploration"] = api_cov
    return finish(pid, tier, cov, [v for v in violations if v["property"] == "C11"] + extra_viol + api_viol, assume, t0)


def replay(pid, rec):
    if rec.get("engine") == "apiseq":
        from . import apiseq
        return apiseq.replay(rec)
    from .sweep import make_ctx
    from .explore import explore
    from .spec import spec_from_json
    spec = rec["scenario"]
    spec = spec_from_json(spec) if "subnets" in spec else spec
    ctx = make_ctx(spec, rec["binding"])
    from .sweep import replay_explore
    res = replay_explore(ctx)
    post_explore(ctx, res, ["C11"], {})
    return [v for v in ctx.violations if v["kind"] == rec["kind"]] or ctx.violations
