"""C15 — the generator returns a well-formed scenario for every valid parameter set.

Engine: mc/genexplore.py (deviation-bounded exploration of the generator's RNG choice points on the
real ScenarioGenerator.generate).  Oracle: an independent well-formedness predicate over the returned
Scenario (re-derived from the parameter set), plus termination (livelock verdicts are confirmed exactly).
"""
import itertools
import math
import multiprocessing as mp
import time

from .common import HarnessError, import_nasim, ncpu
from .evidence import finish, rotate
from .family import pairwise
from . import genexplore as gx

RULE = ("parameter grid (pairwise over the documented domain + benchmark parameter sets) x seeds x all executions with "
        "<= 1 forced deviation at any RNG choice point (<= 2 for the smallest sets in thorough); "
        "non-trivial = execution that differs from the default run of its (params, seed) by a forced RNG answer")

GRID_AXES = {
    "num_hosts": [3, 5, 8, 12, 14],
    "num_services": [1, 2, 3],
    "num_os": [1, 2, 3],
    "num_processes": [1, 2, 3],
    "num_exploits": ["none", "one", "mid", "cap"],
    "num_privescs": ["none", "one", "os", "mid"],
    "rewards": [(10, 10), (7.5, 3)],
    "costs": [(1, 1), (2.5, 3)],
    "exploit_probs": ["one", "none", "mixed", "half", "list"],
    "privesc_probs": ["one", "none", "p7", "list"],
    "uniform": [False, True],
    "alpha_H": [2.0, 0.5],
    "alpha_V": [2.0, 0.5, 1.0],
    "lambda_V": [1.0, 2.0, 0.5],
    "restrictiveness": [1, 2, 5],
    "random_goal": [False, True],
    "values": [(1, 1), (0, 0), (2, 0.5)],
    "step_limit": [None, 50],
    "bounds": ["default", "enlarged"],
    "scan_costs": [1, 0.5],
}


def realise(row, seed):
    S, O, P = row["num_services"], row["num_os"], row["num_processes"]
    p = {"num_hosts": row["num_hosts"], "num_services": S, "num_os": O, "num_processes": P}
    cap_e, cap_p = S * (O + 1), P * (O + 1)
    ne = {"none": None, "one": 1, "mid": max(1, cap_e // 2), "cap": cap_e}[row["num_exploits"]]
    npv = {"none": None, "one": 1, "os": min(cap_p, O), "mid": max(1, cap_p // 2)}[row["num_privescs"]]
    p["num_exploits"], p["num_privescs"] = ne, npv
    p["r_sensitive"], p["r_user"] = row["rewards"]
    p["exploit_cost"], p["privesc_cost"] = row["costs"]
    n_e = ne if ne is not None else S
    n_p = npv if npv is not None else P
    p["exploit_probs"] = {"one": 1.0, "none": None, "mixed": "mixed", "half": 0.5,
                          "list": [round(0.2 + 0.8 * (i + 1) / n_e, 3) for i in range(n_e)]}[row["exploit_probs"]]
    p["privesc_probs"] = {"one": 1.0, "none": None, "p7": 0.7,
                          "list": [round(1.0 - 0.5 * i / max(1, n_p), 3) for i in range(n_p)]}[row["privesc_probs"]]
    p["uniform"] = row["uniform"]
    p["alpha_H"], p["alpha_V"], p["lambda_V"] = row["alpha_H"], row["alpha_V"], row["lambda_V"]
    p["restrictiveness"] = row["restrictiveness"]
    p["random_goal"] = row["random_goal"]
    p["base_host_value"], p["host_discovery_value"] = row["values"]
    p["step_limit"] = row["step_limit"]
    sc = row["scan_costs"]
    p["service_scan_cost"] = p["os_scan_cost"] = p["subnet_scan_cost"] = p["process_scan_cost"] = sc
    if row["bounds"] == "enlarged":
        subnets = expected_subnets(row["num_hosts"])
        p["address_space_bounds"] = (len(subnets) + 2, max(subnets) + 3)
    p["seed"] = seed
    return p


def expected_subnets(n):
    """documented subnet formula (scenario_generation.rst): DMZ, sensitive, then user subnets of 5"""
    dmz = math.ceil(n / 40)
    sens = math.ceil(n / 41)
    user = n - dmz - sens
    out = [1, dmz, sens] + [5] * (user // 5)
    if user % 5:
        out.append(user % 5)
    return out


# ------------------------------------------------------------------------------------------- oracle
def wellformed(params, sc):
    """list of problems (strings) of the Scenario `sc` returned for `params`"""
    import nasim.scenarios.utils as u
    pr = []
    d = sc.scenario_dict
    S, O, P = params["num_services"], params.get("num_os", 2), params.get("num_processes", 2)
    ne = params.get("num_exploits") or S
    npv = params.get("num_privescs") or P
    hosts = d[u.HOSTS]
    subnets = list(d[u.SUBNETS])
    services, oss, procs = list(d[u.SERVICES]), list(d[u.OS]), list(d[u.PROCESSES])
    if len(hosts) != params["num_hosts"]:
        pr.append(f"hosts: {len(hosts)} != requested {params['num_hosts']}")
    if sum(subnets[1:]) != params["num_hosts"] or subnets[0] != 1 or any(int(x) < 1 for x in subnets):
        pr.append(f"subnet sizes {subnets} do not sum to {params['num_hosts']}")
    for what, got, want in (("os", oss, O), ("services", services, S), ("processes", procs, P),
                            ("exploits", d[u.EXPLOITS], ne), ("privescs", d[u.PRIVESCS], npv)):
        if len(got) != want:
            pr.append(f"{what}: {len(got)} != requested {want}")
        if len(set(map(str, got))) != len(got):
            pr.append(f"{what}: duplicates")
    # ---- topology
    topo = [[int(c) for c in r] for r in d[u.TOPOLOGY]]
    n = len(subnets)
    if len(topo) != n or any(len(r) != n for r in topo):
        pr.append("topology not square over the subnets")
    else:
        for i in range(n):
            for j in range(n):
                if float(d[u.TOPOLOGY][i][j]) not in (0.0, 1.0):
                    pr.append(f"topology[{i}][{j}] not 0/1")
                if topo[i][j] != topo[j][i]:
                    pr.append(f"topology not symmetric at ({i},{j})")
            if topo[i][i] != 1:
                pr.append(f"subnet {i} not self-connected")
        public = [i for i in range(1, n) if topo[i][0] == 1 or topo[0][i] == 1]
        if public != [1]:
            pr.append(f"public subnets {public}, expected only the DMZ [1]")
    # ---- hosts
    want_addrs = [(s, h) for s in range(1, n) for h in range(int(subnets[s]))]
    if sorted(hosts) != sorted(want_addrs):
        pr.append("host addresses do not fill the subnets")
    sens = {tuple(k): v for k, v in d[u.SENSITIVE_HOSTS].items()}
    for a, h in hosts.items():
        if tuple(h.address) != tuple(a):
            pr.append(f"host {a}: address field {h.address}")
        if list(h.os) != oss or sum(1 for v in h.os.values() if v) != 1:
            pr.append(f"host {a}: not exactly one OS ({h.os})")
        if list(h.services) != services or not any(h.services.values()):
            pr.append(f"host {a}: no service / wrong service map")
        if list(h.processes) != procs or not any(h.processes.values()):
            pr.append(f"host {a}: no process / wrong process map")
        want_v = float(sens.get(tuple(a), params.get("base_host_value", 1)))
        if float(h.value) != want_v:
            pr.append(f"host {a}: value {h.value} != {want_v}")
        if float(h.discovery_value) != float(params.get("host_discovery_value", 1)):
            pr.append(f"host {a}: discovery value {h.discovery_value}")
    # ---- sensitive hosts
    if (2, 0) not in sens or float(sens[(2, 0)]) != float(params.get("r_sensitive", 10)):
        pr.append(f"sensitive-subnet host (2,0) missing or wrong value: {sens}")
    others = {a: v for a, v in sens.items() if a != (2, 0)}
    if len(others) != 1:
        pr.append(f"expected exactly one sensitive user host, got {others}")
    else:
        (ua, uv), = others.items()
        if float(uv) != float(params.get("r_user", 10)):
            pr.append(f"user goal host {ua} has value {uv}, requested r_user={params.get('r_user', 10)}")
        if ua not in hosts or ua[0] < 3:
            pr.append(f"user goal host {ua} is not a host of a user subnet")
    # ---- exploits / escalations
    def probs_ok(spec, defs, key, what):
        got = [float(e[key]) for e in defs.values()]
        for g in got:
            if not (0.0 < g <= 1.0):
                pr.append(f"{what} probability {g} outside (0,1]")
        if isinstance(spec, float) and any(g != spec for g in got):
            pr.append(f"{what} probabilities {got} != requested {spec}")
        if isinstance(spec, list) and got != [float(x) for x in spec]:
            pr.append(f"{what} probabilities {got} != requested list {spec}")
        if spec == "mixed" and any(g not in (0.3, 0.6, 0.9) for g in got):
            pr.append(f"{what} probabilities {got} not from the documented mixed levels")

    seen_pairs = set()
    for name, e in d[u.EXPLOITS].items():
        if e["service"] not in services or not (e["os"] is None or e["os"] in oss):
            pr.append(f"exploit {name} references undefined service/OS")
        if float(e["cost"]) != float(params.get("exploit_cost", 1)):
            pr.append(f"exploit {name} cost {e['cost']}")
        if int(e["access"]) not in (1, 2):
            pr.append(f"exploit {name} access {e['access']}")
        seen_pairs.add((e["service"], e["os"]))
    probs_ok(params.get("exploit_probs", 1.0), d[u.EXPLOITS], "prob", "exploit")
    for name, e in d[u.PRIVESCS].items():
        if e["process"] not in procs or not (e["os"] is None or e["os"] in oss):
            pr.append(f"escalation {name} references undefined process/OS")
        if float(e["cost"]) != float(params.get("privesc_cost", 1)):
            pr.append(f"escalation {name} cost {e['cost']}")
        if int(e["access"]) not in (1, 2):
            pr.append(f"escalation {name} access {e['access']}")
    probs_ok(params.get("privesc_probs", 1.0), d[u.PRIVESCS], "prob", "escalation")
    # ---- firewall
    fw = {tuple(k): v for k, v in d[u.FIREWALL].items()}
    if len(topo) == n and all(len(r) == n for r in topo):
        want_keys = {(i, j) for i in range(n) for j in range(n) if i != j and topo[i][j] == 1}
        if set(fw) != want_keys:
            pr.append(f"firewall rules for {sorted(set(fw) ^ want_keys)} missing/superfluous")
        R = params.get("restrictiveness", 5)
        for (i, j), allowed in fw.items():
            al = list(allowed)
            if any(s not in services for s in al) or len(set(al)) != len(al):
                pr.append(f"firewall {(i, j)} lists undefined/duplicate services {al}")
            if i > 2 and j > 2:
                if sorted(al) != sorted(services):
                    pr.append(f"firewall {(i, j)} between user subnets blocks {sorted(set(services) - set(al))}")
            elif j != 0:
                if not (1 <= len(al) <= R):
                    pr.append(f"firewall {(i, j)} crosses zones and allows {len(al)} services (restrictiveness {R})")
    return pr


def classify(params, schedule, run, sc, exc, orders=None):
    """-> violation record or None for one explored execution"""
    pclean = {k: v for k, v in params.items()}
    if exc is None:
        probs = wellformed(params, sc)
        if probs:
            return {"property": "C15", "kind": "malformed_scenario:" + probs[0].split(":")[0].split(" ")[0],
                    "engine": "genexplore", "params": pclean, "schedule": {str(k): v for k, v in schedule.items()},
                    "detail": {"problems": probs[:6], "choice_points": len(run.points)}}
        return None
    if exc == "horizon":
        live, changed = gx.confirm_livelock(params, schedule, run.stuck, orders)
        if not live:
            return {"inconclusive": True}
        loc = run.stuck["locals"]
        cause = "unclassified"
        if run.stuck["site"] == "_generate_privescs":
            try:
                oc = eval(loc.get("os_choices", "[]"), {"np": None, "None": None})
            except Exception:
                oc = None
            nproc = params.get("num_processes", 2)
            if isinstance(oc, list) and oc and max(oc.count(x) for x in oc) > nproc:
                cause = "os_choices_names_one_os_more_often_than_there_are_processes"
        return {"property": "C15", "kind": "generator_livelock", "engine": "genexplore", "params": pclean,
                "schedule": {str(k): v for k, v in schedule.items()}, "site": run.stuck["site"], "cause": cause,
                "detail": {"stuck": {k: v for k, v in run.stuck.items() if k != "progress"},
                           "no_answer_of_the_stuck_call_changes_the_loop_state": True}}
    if exc in ("divergence", "not_repeatable"):
        return {"property": "C15", "kind": "generator_behaviour_depends_on_earlier_generate_calls", "engine": "genexplore",
                "params": pclean, "schedule": {str(k): v for k, v in schedule.items()},
                "detail": {"note": "the same parameters, seed and RNG answers did not reach the same choice points twice "
                                   "in one process; the returned scenario is therefore not a function of the parameter set"}}
    if isinstance(exc, dict):
        return {"property": "C15", "kind": "generator_exception:" + exc["type"], "engine": "genexplore",
                "params": pclean, "schedule": {str(k): v for k, v in schedule.items()}, "site": exc["site"],
                "alpha_V_is_1": float(params.get("alpha_V", 2.0)) == 1.0, "detail": exc}
    return None


def _job(args):
    params, max_dev, dev_cap = args
    import_nasim()
    out = {"violations": [], "executions": 0, "points": 0, "nontrivial": 0, "inconclusive": 0, "capped": 0,
           "kinds": {}}
    seen_kinds = {}

    def on_result(schedule, run, sc, exc):
        if schedule:
            out["nontrivial"] += 1
        v = classify(params, schedule, run, sc, exc)
        if v is None:
            return
        if v.get("inconclusive"):
            out["inconclusive"] += 1
            return
        k = (v["kind"], v.get("site"), v.get("cause"))
        seen_kinds[k] = seen_kinds.get(k, 0) + 1
        if seen_kinds[k] <= 2:
            out["violations"].append(v)

    c = gx.explore_params(params, max_dev=max_dev, on_result=on_result, dev_cap=dev_cap)
    out["executions"], out["points"], out["capped"] = c["executions"], c["points"], c["capped"]
    out["kinds"] = {"|".join(map(str, k)): n for k, n in seen_kinds.items()}
    gx.uninstall()
    return out


def grid(tier):
    names = list(GRID_AXES)
    rows = pairwise(GRID_AXES, names)
    rows += pairwise(GRID_AXES, list(reversed(names)))
    if tier == "thorough":
        rows += pairwise(GRID_AXES, names[7:] + names[:7])
        rows += pairwise(GRID_AXES, names[13:] + names[:13])
    return rows


def benchmark_param_sets():
    import_nasim()
    from nasim.scenarios.benchmark import AVAIL_GEN_BENCHMARKS
    out = []
    for name, p in AVAIL_GEN_BENCHMARKS.items():
        q = dict(p)
        q.pop("seed", None)
        out.append((name, q))
    return out


def jobs_for(tier):
    jobs = []
    seeds = (0, 1, 2, 3) if tier == "quick" else (0, 1, 2, 3, 4, 5, 6, 7)
    for row in grid(tier):
        for seed in seeds:
            p = realise(row, seed)
            small = p["num_hosts"] <= 5
            if tier == "thorough":
                jobs.append((p, 2 if (small and p["num_services"] <= 2 and seed == 0) else 1, 60000))
            else:
                jobs.append((p, 1, 1500))
    # many OSs: names whose alphabetical order differs from their numeric order (os_10 < os_2)
    for seed in ((0, 1) if tier == "quick" else range(6)):
        jobs.append(({"num_hosts": 8, "num_services": 2, "num_os": 11, "num_processes": 2, "restrictiveness": 2,
                      "exploit_probs": 0.5, "seed": seed}, 1, 1500 if tier == "quick" else 20000))
    # valid but extreme / fractional numbers: rewards far below float32 resolution, fractional rewards and costs
    for seed in ((0, 1) if tier == "quick" else range(6)):
        jobs.append(({"num_hosts": 5, "num_services": 2, "r_sensitive": 1e-46, "r_user": 1e-46, "exploit_probs": 0.5, "seed": seed}, 0, 1500))
        jobs.append(({"num_hosts": 6, "num_services": 3, "r_sensitive": 7.5, "r_user": 0.5, "exploit_cost": 2.5, "privesc_cost": 1.5,
                      "exploit_probs": 0.5, "seed": seed}, 0, 1500))
    bench_seeds = range(0, 10) if tier == "quick" else range(0, 100)
    for name, q in benchmark_param_sets():
        for seed in bench_seeds:
            p = dict(q); p["seed"] = seed
            big = p["num_hosts"] > 16
            jobs.append((p, 0 if (big or seed > 1) else 1, 1500 if tier == "quick" else 20000))
    return jobs


def run(pid, tier):
    t0 = time.time()
    jobs = jobs_for(tier)
    n = ncpu()
    with mp.get_context("fork").Pool(processes=n) as pool:
        results = list(pool.imap_unordered(_job, jobs, chunksize=1))
    ex = sum(r["executions"] for r in results)
    violations = [v for r in results for v in r["violations"]]
    kinds = {}
    for r in results:
        for k, v in r["kinds"].items():
            kinds[k] = kinds.get(k, 0) + v
    samples = [{"params": {k: v for k, v in j[0].items() if k in ("num_hosts", "num_services", "num_os", "num_processes",
                                                                  "num_exploits", "num_privescs", "restrictiveness",
                                                                  "uniform", "alpha_V", "seed", "random_goal")},
                "max_deviations": j[1]} for j in rotate(jobs, 4)]
    cov = {
        "states": ex, "transitions": sum(r["points"] for r in results) + ex,
        "traces_validated_against_impl": ex,
        "evaluations": ex, "distinct_nontrivial": sum(r["nontrivial"] for r in results),
        "rule": RULE, "samples": samples,
        "exhaustive": sum(r["capped"] for r in results) == 0,
        "parameter_sets_x_seeds": len(jobs), "executions": ex,
        "executions_capped_jobs": sum(1 for r in results if r["capped"]),
        "horizon": gx.HORIZON, "horizon_hits_inconclusive": sum(r["inconclusive"] for r in results),
        "violation_kinds_seen(incl. known findings)": kinds,
        "bound": "deviation bound 1 (2 for <=5-host sets, thorough); per-job execution cap reported in executions_capped_jobs",
        "note": "states = generator executions explored; transitions = RNG choice points of the default runs + executions",
    }
    assume = ["documented domain: num_exploits <= S*(OS+1), num_privescs <= P*(OS+1) (more distinct definitions cannot exist), floats for alpha/lambda, probabilities in (0,1]",
              "a forced answer is any value the NumPy call could return; rand/random_sample are represented by their extremes, poisson by {0..3}"]
    return finish(pid, tier, cov, violations, assume, t0)


def replay(pid, rec):
    import_nasim()
    params = rec["params"]
    schedule = {int(k): v for k, v in rec.get("schedule", {}).items()}
    run_, sc, exc = gx.execute(params, schedule)
    v = classify(params, schedule, run_, sc, exc)
    gx.uninstall()
    if v is None or v.get("inconclusive"):
        return []
    return [v]
