"""Evidence files, replay artefacts, VIOLATION / KNOWN-FINDING lines, known-findings matching."""
import hashlib
import json
import os
import sys
import time

from .common import VERIF, verif_seed, EXIT_OK, EXIT_VIOLATION

EVIDENCE_DIR = os.path.join(VERIF, "evidence")
REPLAY_DIR = os.path.join(VERIF, "replays")
KNOWN = os.path.join(VERIF, "known_findings.json")


def _jsonable(x):
    import numpy as np
    if isinstance(x, dict):
        return {str(k): _jsonable(v) for k, v in x.items()}
    if isinstance(x, (list, tuple, set, frozenset)):
        return [_jsonable(v) for v in (sorted(x, key=repr) if isinstance(x, (set, frozenset)) else x)]
    if isinstance(x, (np.integer,)):
        return int(x)
    if isinstance(x, (np.floating,)):
        return float(x)
    if isinstance(x, (np.bool_,)):
        return bool(x)
    if isinstance(x, np.ndarray):
        return x.tolist()
    if isinstance(x, (str, int, float, bool)) or x is None:
        return x
    return repr(x)


def load_known():
    try:
        with open(KNOWN) as f:
            return json.load(f).get("entries", [])
    except FileNotFoundError:
        return []


def _match(sig, rec):
    """a signature is a dict of dotted-path -> expected value (or {"in": [...]}, {"contains": str})
    evaluated on the violation record; every clause must hold"""
    for path, want in sig.items():
        cur = rec
        for part in path.split("."):
            if isinstance(cur, dict) and part in cur:
                cur = cur[part]
            else:
                cur = None
                break
        if isinstance(want, dict) and "in" in want:
            if cur not in want["in"]:
                return False
        elif isinstance(want, dict) and "contains" in want:
            if not isinstance(cur, str) or want["contains"] not in cur:
                return False
        elif isinstance(want, dict) and "startswith" in want:
            if not isinstance(cur, str) or not cur.startswith(want["startswith"]):
                return False
        else:
            if cur != want:
                return False
    return True


def known_finding_for(rec):
    for e in load_known():
        if e.get("kind") != "finding":
            continue       # "fixed" entries suppress nothing
        if e.get("property") != rec.get("property"):
            continue
        if _match(e.get("signature", {}), rec):
            return e
    return None


def write_replay(rec):
    os.makedirs(REPLAY_DIR, exist_ok=True)
    rec = _jsonable(rec)
    body = json.dumps(rec, sort_keys=True, indent=1)
    h = hashlib.sha1(body.encode()).hexdigest()[:12]
    path = os.path.join(REPLAY_DIR, f"{rec['property']}-{h}.json")
    with open(path, "w") as f:
        f.write(body)
    return path


def finish(pid, tier, coverage, violations, assumptions, t0, level="model_checking", extra=None):
    """Classify violations (known finding vs new), write replays + evidence, print lines, return exit code."""
    new, known = [], {}
    for rec in violations:
        rec = _jsonable(rec)
        e = known_finding_for(rec)
        if e is not None:
            known.setdefault(e["id"], [e, 0])[1] += 1
        else:
            new.append(rec)
    lines = []
    for fid, (e, n) in sorted(known.items()):
        lines.append(f"KNOWN-FINDING: property={pid} {e['id']}: {e['what']} [{n} matching case(s) this run]")
    seen_kinds = set()
    replays = []
    for rec in new:
        k = (rec.get("kind"), json.dumps(rec.get("scenario_name", None)))
        path = write_replay(rec)
        replays.append(path)
        lines.append(f"VIOLATION property={pid} replay={path}")
        seen_kinds.add(k)
    cov = dict(coverage)
    cov.setdefault("samples", [])
    if not cov["samples"]:
        cov["samples"] = ["(none recorded)"]
    ev = {
        "property_id": pid,
        "tier": tier,
        "seed": verif_seed(),
        "level": level,
        "coverage": _jsonable(cov),
        "assumptions": list(assumptions),
        "wall_s": round(time.time() - t0, 3),
        "violations": len(new),
        "known_findings_matched": {fid: n for fid, (e, n) in known.items()},
        "violation_kinds": sorted({str(r.get("kind")) for r in new}),
    }
    if extra:
        ev.update(_jsonable(extra))
    os.makedirs(EVIDENCE_DIR, exist_ok=True)
    tmp = os.path.join(EVIDENCE_DIR, f".{pid}.json.tmp")
    with open(tmp, "w") as f:
        json.dump(ev, f, indent=1, sort_keys=True)
    os.replace(tmp, os.path.join(EVIDENCE_DIR, f"{pid}.json"))
    for ln in lines:
        print(ln)
    sys.stdout.flush()
    return EXIT_VIOLATION if new else EXIT_OK


def rotate(items, k=3):
    """VERIF_SEED only rotates which enumerated cases are written out as samples."""
    items = list(items)
    if not items:
        return []
    s = verif_seed() % len(items)
    return (items[s:] + items[:s])[:k]
