"""Neutral scenario specification and its bindings to the real code.

A *spec* is plain Python data (no nasim objects, no NumPy):

  name, subnets (WITHOUT the internet entry), topology (WITH internet row/col, ints),
  os / services / processes (ordered name lists),
  hosts {(s,h): {os, services[], processes[], value (float, may be absent => 0 / sensitive value),
                  discovery_value (float), firewall {(s,h): [denied services]}}},
  sensitive_hosts {(s,h): value}, exploits {name: {service, os|None, prob, cost, access 1|2}},
  privescs {name: {process, os|None, prob, cost, access}},
  scan_costs {service, os, subnet, process}, firewall {(src,dst): [allowed services]},
  step_limit None|int, address_space_bounds None|(a,b)

Bindings:
  * to_yaml_doc(spec)        documented YAML form (strings), loaded with the REAL nasim.load_scenario
  * to_scenario(spec)        nasim.scenarios.Scenario built from a scenario dict (the "dict" binding)
  * spec_from_yaml_doc(doc)  independent reader of a YAML document (yaml.safe_load + documented meaning)
  * spec_from_scenario(sc)   reads a generated Scenario's own definition (scenario_dict / Host objects)
"""
import ast
import copy
import json
import os
import tempfile

import yaml

from .common import USER, ROOT


# ----------------------------------------------------------------------------- helpers

def all_addresses(spec):
    out = []
    for s, size in enumerate(spec["subnets"], start=1):
        for h in range(size):
            out.append((s, h))
    return out


def host_listing_order(spec):
    """order in which hosts are listed in the file / host dict (not part of the meaning)"""
    a = all_addresses(spec)
    return list(reversed(a)) if spec.get("host_order") == "reversed" else a


def host_value(spec, addr):
    """value of a host as the documentation defines it"""
    if addr in spec["sensitive_hosts"]:
        return float(spec["sensitive_hosts"][addr])
    return float(spec["hosts"][addr].get("value", 0))


def yaml_expressible(spec):
    if spec.get("address_space_bounds") is not None:
        return False
    for h in spec["hosts"].values():
        if float(h.get("discovery_value", 0)) != 0.0 or h.get("_init_flags"):
            return False
    return True


# ----------------------------------------------------------------------------- json

def spec_to_json(spec):
    d = copy.deepcopy(spec)
    d["hosts"] = {}
    for a, h in spec["hosts"].items():
        hh = dict(h)
        hh["firewall"] = {str(tuple(k)): list(v) for k, v in h.get("firewall", {}).items()}
        d["hosts"][str(tuple(a))] = hh
    d["sensitive_hosts"] = {str(tuple(a)): v for a, v in spec["sensitive_hosts"].items()}
    d["firewall"] = {str(tuple(a)): list(v) for a, v in spec["firewall"].items()}
    if d.get("address_space_bounds") is not None:
        d["address_space_bounds"] = list(d["address_space_bounds"])
    return d


def spec_from_json(d):
    s = copy.deepcopy(d)
    s["hosts"] = {}
    for a, h in d["hosts"].items():
        hh = dict(h)
        hh["firewall"] = {ast.literal_eval(k): list(v) for k, v in h.get("firewall", {}).items()}
        s["hosts"][ast.literal_eval(a)] = hh
    s["sensitive_hosts"] = {ast.literal_eval(a): v for a, v in d["sensitive_hosts"].items()}
    s["firewall"] = {ast.literal_eval(a): list(v) for a, v in d["firewall"].items()}
    if s.get("address_space_bounds") is not None:
        s["address_space_bounds"] = tuple(s["address_space_bounds"])
    return s


def spec_fingerprint(spec):
    return json.dumps(spec_to_json(spec), sort_keys=True, default=str)


# ----------------------------------------------------------------------------- YAML binding

ACCESS_WORD = {USER: "user", ROOT: "root"}


def to_yaml_doc(spec, style=None):
    """documented YAML form. `style` optionally selects surface variants (C17):
       style = {"os_none": "none"|"None", "access": "word"|"int", "omit_zero_value": bool}
    """
    style = style or {}
    os_none = style.get("os_none", "none")
    access_form = style.get("access", "word")
    assert yaml_expressible(spec), "spec needs the dict binding"
    doc = {}
    keys = style.get("keys", "canonical")

    def key(a):
        # address / connection keys are Python tuples written as text; the spacing is up to the author. The keys of
        # host_configurations are the exception: the loader looks them up as str((subnet, host)), i.e. canonical.
        # (only the canonical spelling str((a, b)) is used by the registered checks: the documentation writes every key
        # that way and the loader itself looks firewall and host keys up in that spelling, so other spacings are outside
        # the documented format - see DESIGN §10)
        a = (int(a[0]), int(a[1]))
        return {"canonical": str(a), "compact": "(%d,%d)" % a, "spaced": "( %d, %d )" % a}[keys]
    doc["subnets"] = list(spec["subnets"])
    doc["topology"] = [list(map(int, r)) for r in spec["topology"]]
    doc["sensitive_hosts"] = {key(a): v for a, v in spec["sensitive_hosts"].items()}
    doc["os"] = list(spec["os"])
    doc["services"] = list(spec["services"])
    doc["processes"] = list(spec["processes"])

    def acc(x):
        return ACCESS_WORD[x] if access_form == "word" else int(x)

    def num(x, is_prob=False):
        # surface variants of the same number: 1 <-> 1.0
        if style.get("float_numbers") and isinstance(x, int) and not isinstance(x, bool):
            return float(x)
        if style.get("int_numbers") and isinstance(x, float) and x == int(x):
            return int(x)
        return x

    doc["exploits"] = {}
    for n, e in spec["exploits"].items():
        doc["exploits"][n] = {
            "service": e["service"], "os": os_none if e["os"] is None else e["os"],
            "prob": num(e["prob"]), "cost": num(e["cost"]), "access": acc(e["access"])}
    doc["privilege_escalation"] = {}
    for n, e in spec["privescs"].items():
        doc["privilege_escalation"][n] = {
            "process": e["process"], "os": os_none if e["os"] is None else e["os"],
            "prob": num(e["prob"]), "cost": num(e["cost"]), "access": acc(e["access"])}
    sc = spec["scan_costs"]
    doc["service_scan_cost"] = num(sc["service"])
    doc["os_scan_cost"] = num(sc["os"])
    doc["subnet_scan_cost"] = num(sc["subnet"])
    doc["process_scan_cost"] = num(sc["process"])
    doc["host_configurations"] = {}
    for a in host_listing_order(spec):
        h = spec["hosts"][a]
        cfg = {"os": h["os"], "services": list(h["services"]), "processes": list(h["processes"])}
        if h.get("firewall") or style.get("empty_host_firewall"):
            cfg["firewall"] = {key(k): list(v) for k, v in h.get("firewall", {}).items()}
        if "value" in h and not (style.get("omit_zero_value") and float(h["value"]) == 0.0
                                 and a not in spec["sensitive_hosts"]):
            cfg["value"] = num(h["value"])
        if style.get("repeat_sensitive_value") and a in spec["sensitive_hosts"]:
            # the documentation allows a sensitive host to repeat its (matching) value
            cfg["value"] = spec["sensitive_hosts"][a]
        if style.get("aliases"):
            # hosts with identical configurations are written ONCE and referred to by YAML anchor / alias: the dumper
            # emits &id / *id for a mapping object that occurs several times
            pool = doc.setdefault("_cfg_pool", [])
            for other in pool:
                if other == cfg:
                    cfg = other
                    break
            else:
                pool.append(cfg)
        doc["host_configurations"][str(a)] = cfg
    doc.pop("_cfg_pool", None)
    doc["firewall"] = {key(k): list(v) for k, v in spec["firewall"].items()}
    if spec.get("step_limit") is not None:
        doc["step_limit"] = spec["step_limit"]
    return doc


def dump_yaml(doc, flow=None):
    return yaml.safe_dump(doc, default_flow_style=flow, sort_keys=False)


def spec_from_yaml_doc(doc, name="yaml"):
    """Independent reader: documented meaning of a *valid* document (no nasim import)."""
    def addr(s):
        t = ast.literal_eval(s) if isinstance(s, str) else tuple(s)
        return (int(t[0]), int(t[1]))

    def none_os(x):
        return None if (x is None or str(x).lower() == "none") else x

    def acc(x):
        if isinstance(x, str):
            return {"user": USER, "root": ROOT}[x]
        return int(x)

    spec = {"name": name}
    spec["subnets"] = [int(x) for x in doc["subnets"]]
    spec["topology"] = [[int(c) for c in r] for r in doc["topology"]]
    spec["os"] = list(doc["os"])
    spec["services"] = list(doc["services"])
    spec["processes"] = list(doc["processes"])
    spec["sensitive_hosts"] = {addr(a): v for a, v in doc["sensitive_hosts"].items()}
    spec["exploits"] = {
        n: {"service": e["service"], "os": none_os(e["os"]), "prob": e["prob"],
            "cost": e["cost"], "access": acc(e["access"])}
        for n, e in doc["exploits"].items()}
    spec["privescs"] = {
        n: {"process": e["process"], "os": none_os(e["os"]), "prob": e["prob"],
            "cost": e["cost"], "access": acc(e["access"])}
        for n, e in (doc.get("privilege_escalation") or {}).items()}
    spec["scan_costs"] = {"service": doc["service_scan_cost"], "os": doc["os_scan_cost"],
                          "subnet": doc["subnet_scan_cost"], "process": doc["process_scan_cost"]}
    spec["hosts"] = {}
    for a, cfg in doc["host_configurations"].items():
        h = {"os": cfg["os"], "services": list(cfg["services"]), "processes": list(cfg["processes"]),
             "discovery_value": 0.0,
             "firewall": {addr(k): list(v) for k, v in (cfg.get("firewall") or {}).items()}}
        if "value" in cfg:
            h["value"] = cfg["value"]
        spec["hosts"][addr(a)] = h
    spec["firewall"] = {addr(k): list(v) for k, v in doc["firewall"].items()}
    spec["step_limit"] = doc.get("step_limit")
    spec["address_space_bounds"] = None
    return spec


_SCRATCH = {}


def load_yaml_text_with_nasim(text, name="verif"):
    """Write `text` to a scratch file and load it with the real loader.  Each process REUSES one scratch path
    for all its loads (a file that is rewritten and loaded again must be read again), removed at exit."""
    from .common import import_nasim
    nasim = import_nasim()
    pid = os.getpid()
    path = _SCRATCH.get(pid)
    if path is None:
        # one shared scratch directory, one file name per process; the file is removed after every load, so nothing but
        # the (empty) directory is ever left behind - pool workers do not run atexit handlers
        d = os.path.join(tempfile.gettempdir(), "nasimverif")
        os.makedirs(d, exist_ok=True)
        path = os.path.join(d, "scenario_%d.yaml" % pid)
        _SCRATCH[pid] = path
    with open(path, "w") as f:
        f.write(text)
    # every document carries the SAME modification time (as files copied with `cp -p` or unpacked from one archive do):
    # what a path meant before must not survive a rewrite just because size and timestamp happen to agree
    os.utime(path, ns=(1_600_000_000_000_000_000, 1_600_000_000_000_000_000))
    try:
        return nasim.load_scenario(path, name=name)
    finally:
        try:
            os.unlink(path)
        except OSError:
            pass


# ----------------------------------------------------------------------------- dict binding

def to_scenario(spec):
    """Build a nasim Scenario from the spec through the documented scenario-dict interface."""
    from .common import import_nasim
    import_nasim()
    from nasim.scenarios import Scenario
    from nasim.scenarios.host import Host
    import nasim.scenarios.utils as u

    hosts = {}
    for a in host_listing_order(spec):
        h = spec["hosts"][a]
        hosts[a] = Host(
            address=a,
            os={o: (o == h["os"]) for o in spec["os"]},
            services={s: (s in h["services"]) for s in spec["services"]},
            processes={p: (p in h["processes"]) for p in spec["processes"]},
            firewall={tuple(k): list(v) for k, v in h.get("firewall", {}).items()},
            value=host_value(spec, a),
            discovery_value=float(h.get("discovery_value", 0)),
            **(h.get("_init_flags") or {}),
        )
    d = {}
    d[u.SUBNETS] = [1] + list(spec["subnets"])
    d[u.TOPOLOGY] = [list(r) for r in spec["topology"]]
    d[u.OS] = list(spec["os"])
    d[u.SERVICES] = list(spec["services"])
    d[u.PROCESSES] = list(spec["processes"])
    d[u.SENSITIVE_HOSTS] = {a: v for a, v in spec["sensitive_hosts"].items()}
    d[u.EXPLOITS] = {n: dict(e) for n, e in spec["exploits"].items()}
    d[u.PRIVESCS] = {n: dict(e) for n, e in spec["privescs"].items()}
    sc = spec["scan_costs"]
    d[u.SERVICE_SCAN_COST] = sc["service"]
    d[u.OS_SCAN_COST] = sc["os"]
    d[u.SUBNET_SCAN_COST] = sc["subnet"]
    d[u.PROCESS_SCAN_COST] = sc["process"]
    d[u.FIREWALL] = {tuple(k): list(v) for k, v in spec["firewall"].items()}
    d[u.HOSTS] = hosts
    d[u.STEP_LIMIT] = spec.get("step_limit")
    if spec.get("address_space_bounds") is not None:
        d[u.ADDRESS_SPACE_BOUNDS] = tuple(spec["address_space_bounds"])
    return Scenario(d, name=spec.get("name", "spec"), generated=False)


def spec_from_scenario(sc, name=None):
    """Read a Scenario's own definition (used for generated scenarios, where no text exists)."""
    import nasim.scenarios.utils as u
    d = sc.scenario_dict
    spec = {"name": name or sc.name}
    spec["subnets"] = [int(x) for x in d[u.SUBNETS][1:]]
    spec["topology"] = [[int(c) for c in r] for r in d[u.TOPOLOGY]]
    spec["os"] = list(d[u.OS])
    spec["services"] = list(d[u.SERVICES])
    spec["processes"] = list(d[u.PROCESSES])
    spec["sensitive_hosts"] = {tuple(map(int, a)): v for a, v in d[u.SENSITIVE_HOSTS].items()}
    spec["exploits"] = {
        n: {"service": str(e["service"]), "os": None if e["os"] is None else str(e["os"]),
            "prob": float(e["prob"]), "cost": e["cost"], "access": int(e["access"])}
        for n, e in d[u.EXPLOITS].items()}
    spec["privescs"] = {
        n: {"process": str(e["process"]), "os": None if e["os"] is None else str(e["os"]),
            "prob": float(e["prob"]), "cost": e["cost"], "access": int(e["access"])}
        for n, e in d[u.PRIVESCS].items()}
    spec["scan_costs"] = {"service": d[u.SERVICE_SCAN_COST], "os": d[u.OS_SCAN_COST],
                          "subnet": d[u.SUBNET_SCAN_COST], "process": d[u.PROCESS_SCAN_COST]}
    spec["hosts"] = {}
    for a, h in d[u.HOSTS].items():
        os_true = [o for o, v in h.os.items() if v]
        spec["hosts"][tuple(map(int, a))] = {
            "os": os_true[0] if len(os_true) == 1 else os_true,
            "services": [s for s, v in h.services.items() if v],
            "processes": [p for p, v in h.processes.items() if v],
            "value": float(h.value),
            "discovery_value": float(h.discovery_value),
            "firewall": {tuple(k): sorted(v) for k, v in h.firewall.items()},
        }
    spec["firewall"] = {tuple(map(int, k)): sorted(str(x) for x in v) for k, v in d[u.FIREWALL].items()}
    spec["step_limit"] = d.get(u.STEP_LIMIT)
    b = d.get(u.ADDRESS_SPACE_BOUNDS)
    spec["address_space_bounds"] = None if b is None else tuple(int(x) for x in b)
    return spec


def build_scenario(spec, binding):
    """binding: 'yaml' (real loader in the loop) or 'dict'"""
    if binding == "yaml":
        # the surface form of the file (anchors / aliases for repeated host configurations) varies with
        # the scenario, deterministically: the meaning of a document does not depend on it
        import zlib
        h = zlib.crc32(str(spec.get("name", "spec")).encode())
        style = {"aliases": bool(h % 2)}
        return load_yaml_text_with_nasim(dump_yaml(to_yaml_doc(spec, style)), name=spec.get("name", "spec"))
    if binding == "dict":
        return to_scenario(spec)
    raise ValueError(binding)


def rename_spec(spec, mapping, suffix="-ren"):
    """the same scenario with OS / service / process names replaced (names are labels; the format lets them
    be anything, e.g. names that contain one another)"""
    m = lambda x: mapping.get(x, x)
    out = copy.deepcopy(spec)
    out["name"] = spec["name"] + suffix
    for k in ("os", "services", "processes"):
        out[k] = [m(x) for x in spec[k]]
    for a, h in out["hosts"].items():
        h["os"] = m(h["os"])
        h["services"] = [m(x) for x in h["services"]]
        h["processes"] = [m(x) for x in h["processes"]]
        h["firewall"] = {k: [m(x) for x in v] for k, v in h.get("firewall", {}).items()}
    for e in out["exploits"].values():
        e["service"] = m(e["service"])
        e["os"] = None if e["os"] is None else m(e["os"])
    for e in out["privescs"].values():
        e["process"] = m(e["process"])
        e["os"] = None if e["os"] is None else m(e["os"])
    out["firewall"] = {k: [m(x) for x in v] for k, v in out["firewall"].items()}
    return out


SUBSTRING_NAMES = {"os0": "win", "os1": "win-server", "s0": "ftp", "s1": "sftp", "p0": "cron", "p1": "anacron"}
