"""Family sweep: run the explicit-state explorer with a set of armed oracles over every scenario of the
family, sharded over worker processes; aggregate coverage; replay single violations."""
import collections
import multiprocessing as mp
import os
import time
import traceback

from .common import HarnessError, import_nasim, ncpu
from .explore import Ctx, explore, replay_history, Tr
from .family import family, feature_counts, shipped_path, shipped_spec
from .seams import DrawSeam, draw_values
from .spec import spec_from_json, spec_from_scenario, spec_to_json, build_scenario

_SEAM = None


def seam():
    global _SEAM
    if _SEAM is None:
        _SEAM = DrawSeam().install()
    return _SEAM


def make_ctx(spec, binding, need_fo=False):
    """Build the exploration context for one family entry (spec, binding)."""
    nasim = import_nasim()
    sm = seam()
    if binding == "shipped":
        sc = nasim.load_scenario(shipped_path(spec["name"]), name=spec["name"])
        return Ctx(spec, binding, seam=sm, need_fo=need_fo, scenario=sc)
    if binding == "generated":
        if "genparams" in spec:
            sc = nasim.generate_scenario(**dict(spec["genparams"]))
            full = spec_from_scenario(sc, name=spec["name"])
            full["genparams"] = dict(spec["genparams"])
        else:
            name, seed = spec["gen"]
            sc = nasim.make_benchmark_scenario(name, seed=seed)
            full = spec_from_scenario(sc, name=spec["name"])
            full["gen"] = [name, seed]
        return Ctx(full, binding, seam=sm, need_fo=need_fo, scenario=sc)
    return Ctx(spec, binding, seam=sm, need_fo=need_fo)


def entry_to_json(entry):
    spec, binding = entry
    if binding == "generated":
        keep = {k: spec[k] for k in ("name", "gen", "genparams", "_max_states", "_path_only", "_path_cap") if k in spec}
        return {"spec": keep, "binding": binding}
    return {"spec": spec_to_json(spec), "binding": binding}


def entry_from_json(d):
    spec = d["spec"]
    if "subnets" in spec:
        spec = spec_from_json(spec)
    return spec, d["binding"]


def _determinism_selftest(ctx):
    """one recorded schedule replayed twice must give identical observations"""
    hist = []
    for a_idx, m in enumerate(ctx.mactions):
        if m is not None and m["type"] in ("exploit", "subnet_scan", "privesc"):
            hist.append((a_idx, "below"))
        if len(hist) >= 6:
            break
    prints = []
    for _ in range(2):
        ctx.env.reset()
        s = ctx.env.current_state
        fp = []
        for a_idx, side in hist:
            ctx.seam.arm(draw_values(ctx.mactions[a_idx]["prob"])[side])
            s, o, r, d, info = ctx.env.generative_step(s, ctx.actions[a_idx])
            fp.append((s.tensor.tobytes(), o.tensor.tobytes(), float(r), bool(d), bool(info["success"])))
        prints.append(fp)
    if prints[0] != prints[1]:
        raise HarnessError(f"HARNESS-NONDETERMINISM: {ctx.name}: same schedule, different observations")


def _run_entry(args):
    ej, pids, opts = args
    t0 = time.time()
    out = {"name": ej["spec"].get("name"), "binding": ej["binding"], "violations": [], "error": None}
    try:
        from .props_dyn import ORACLES
        spec, binding = entry_from_json(ej)
        need_fo = "C08" in pids
        ctx = make_ctx(spec, binding, need_fo=need_fo)
        nondet = None
        try:
            _determinism_selftest(ctx)
        except HarnessError as e:
            # The same schedule (same states, actions, scripted draws) replayed twice on one environment gave
            # different results. Every source of randomness is scripted, so either the machinery lost control of
            # one (a harness error) or the code under test keeps hidden state between calls. The exploration goes
            # on: if an oracle then reports a concrete violation that stands; silence is NOT trusted (exit 2).
            nondet = str(e)
        if (not ctx.rows_ok or ctx.rows_fallback) and "C09" in pids:
            ctx.report("C09", "address_one_hots_do_not_reproduce_the_scenario_hosts", key=None,
                       detail={"tensor_shape": list(ctx.env.current_state.tensor.shape),
                               "documented_shape": [ctx.layout.nhosts, ctx.layout.width]})
            out.update({"states": 0, "transitions": 0, "capped": False, "stats": {}, "nontrivial": {},
                        "violations": ctx.violations, "viol_counts": {"C09|layout": 1}, "unknown_actions": [],
                        "extra": {}, "hosts": ctx.layout.nhosts, "actions": len(ctx.actions)})
            out["wall_s"] = time.time() - t0
            return out
        oracles = [ORACLES[p]() for p in pids if p in ORACLES]
        expand_only = None
        if spec.get("_path_only"):
            from .explore import plan_path_keys
            expand_only = plan_path_keys(ctx, cap=spec.get("_path_cap"))
        res = explore(ctx, oracles, max_states=opts.get("max_states") or spec.get("_max_states"), expand_only=expand_only)
        nontrivial_first_pass = dict(ctx.nontrivial)     # distinct cases: counted in the first pass only
        param_transitions = 0
        if expand_only is not None and oracles:
            # path-bounded scenarios are cheap: expand the same states again in the opposite order
            oracles_r = [ORACLES[p]() for p in pids if p in ORACLES]
            res_r = explore(ctx, oracles_r, expand_only=expand_only, reverse=True)
            param_transitions += res_r["transitions"]
        if opts.get("param_pass") and oracles:
            oracles2 = [ORACLES[p]() for p in pids if p in ORACLES]
            res2 = explore(ctx, oracles2, max_states=opts.get("max_states") or spec.get("_max_states"), action_rep="param",
                           expand_only=expand_only)
            param_transitions = res2["transitions"]
        extra = {}
        for mod_name in opts.get("post", []):
            import importlib
            mod = importlib.import_module(f"mc.{mod_name}")
            extra[mod_name] = mod.post_explore(ctx, res, pids, opts)
        if nondet and not ctx.violations:
            raise HarnessError(nondet + " (and no oracle reported a violation)")
        out.update({
            "states": res["states"], "transitions": res["transitions"], "capped": res["capped"],
            "stats": {f"{k[0]}|{k[1]}": v for k, v in ctx.stats.items()},
            "nontrivial": nontrivial_first_pass,
            "violations": ctx.violations,
            "viol_counts": {f"{k[0]}|{k[1]}": v for k, v in ctx.viol_counts.items()},
            "unknown_actions": ctx.unknown_actions[:5],
            "extra": extra,
            "hosts": ctx.layout.nhosts, "actions": len(ctx.actions),
            "param_transitions": param_transitions,
            "path_bounded": bool(spec.get("_path_only")),
            "samples": ctx.samples[:2],
        })
    except HarnessError as e:
        out["error"] = "HARNESS: " + str(e)
    except Exception as e:
        # an exception raised INSIDE the code under test while exploring is reported by the caller as a violation
        # of the armed property (the dynamics must not crash on a valid scenario); an exception raised by the
        # checking machinery itself is a harness error, never a violation
        tb = e.__traceback__
        last = None
        while tb is not None:
            last = tb.tb_frame.f_code.co_filename
            tb = tb.tb_next
        from .common import REPO, VERIF
        in_mc = last is not None and os.path.realpath(last).startswith(os.path.realpath(os.path.join(VERIF, "mc")))
        if in_mc:
            out["error"] = "HARNESS: exception in the checking machinery: " + type(e).__name__ + ": " + str(e)[:120] + \
                           " @ " + traceback.format_exc()[-400:]
        else:
            out["crash"] = {"exc": type(e).__name__, "msg": str(e)[:300], "trace": traceback.format_exc()[-1500:],
                            "raised_in": last}
    out["wall_s"] = time.time() - t0
    return out


def run_family(pids, tier, opts=None, entries=None):
    """-> (aggregate coverage dict, violation records, harness errors)"""
    opts = dict(opts or {})
    entries = entries if entries is not None else family(tier)
    jobs = [(entry_to_json(e), list(pids), opts) for e in entries]
    n = ncpu()
    results = []
    if n == 1 or len(jobs) == 1:
        results = [_run_entry(j) for j in jobs]
    else:
        ctxm = mp.get_context("fork")
        # biggest scenarios first (rough size = hosts), long-lived workers, one scenario at a time
        order = sorted(range(len(jobs)), key=lambda i: -_size_hint(jobs[i][0]))
        with ctxm.Pool(processes=min(n, len(jobs))) as pool:
            for r in pool.imap_unordered(_run_entry, [jobs[i] for i in order], chunksize=1):
                results.append(r)
    agg = {"scenarios": len(results), "states": 0, "transitions": 0, "capped_scenarios": [],
           "outcome_classes": collections.Counter(), "nontrivial": collections.Counter(),
           "violation_counts": collections.Counter(), "per_scenario": []}
    violations, errors = [], []
    for r in results:
        if r.get("error"):
            errors.append(f"{r['name']}[{r['binding']}]: {r['error']}")
            continue
        if r.get("crash"):
            for pid in pids:
                violations.append({"property": pid, "kind": "exception_while_exploring:" + r["crash"]["exc"],
                                   "engine": "sweep", "scenario_name": r["name"], "binding": r["binding"],
                                   "detail": r["crash"],
                                   "scenario": _entry_spec_json(entries, r["name"], r["binding"])})
            continue
        agg["states"] += r["states"]
        agg["transitions"] += r["transitions"]
        agg["param_transitions"] = agg.get("param_transitions", 0) + r.get("param_transitions", 0)
        if r["capped"]:
            agg["capped_scenarios"].append(r["name"])
        if r.get("path_bounded"):
            agg.setdefault("path_bounded_scenarios", []).append([r["name"], r["hosts"], r["states"], r["transitions"]])
        for k, v in r["stats"].items():
            agg["outcome_classes"][k] += v
        for k, v in r["nontrivial"].items():
            agg["nontrivial"][k] += v
        for k, v in r["viol_counts"].items():
            agg["violation_counts"][k] += v
        if r["unknown_actions"]:
            agg.setdefault("unknown_actions", []).append([r["name"], r["unknown_actions"]])
        agg["per_scenario"].append([r["name"], r["binding"], r["hosts"], r["actions"], r["states"],
                                    r["transitions"], round(r["wall_s"], 2)])
        agg.setdefault("transition_samples", []).extend(r.get("samples", [])[:1])
        for v in r["violations"]:
            v["scenario_name"] = r["name"]
            violations.append(v)
        for k, ex in (r.get("extra") or {}).items():
            a = agg.setdefault("extra", {}).setdefault(k, collections.Counter())
            for kk, vv in (ex or {}).items():
                if isinstance(vv, (int, float)):
                    a[kk] += vv
    agg["outcome_classes"] = dict(sorted(agg["outcome_classes"].items()))
    agg["nontrivial"] = dict(agg["nontrivial"])
    agg["violation_counts"] = dict(agg["violation_counts"])
    if "extra" in agg:
        agg["extra"] = {k: dict(v) for k, v in agg["extra"].items()}
    agg["per_scenario"].sort()
    agg["features"] = feature_counts(entries)
    return agg, violations, errors


def _size_hint(ej):
    sp = ej["spec"]
    if "subnets" in sp:
        return sum(sp["subnets"]) * 10 + len(sp.get("exploits", {})) + len(sp.get("privescs", {}))
    return 100 if "small" in sp.get("name", "") else 30


def _entry_spec_json(entries, name, binding):
    for sp, b in entries:
        if sp.get("name") == name and b == binding:
            return entry_to_json((sp, b))["spec"]
    return None


# ----------------------------------------------------------------------------------------------- replay
def replay_explore(ctx):
    """exploration used by replays: complete graph for small scenarios, around the reference plan for large ones
    (a complete exploration of a 36- or 171-host scenario does not terminate in practice)"""
    big = ctx.spec.get("_path_only") or ctx.layout.nhosts > 8
    if not big:
        return explore(ctx, [])
    from .explore import plan_path_keys
    return explore(ctx, [], expand_only=plan_path_keys(ctx, cap=ctx.spec.get("_path_cap") or 10))


def replay_sweep_record(rec):
    """Re-establish one sweep violation on a fresh environment.

    First WITHOUT the explorer: the recorded history (list of [action index, draw side]) is replayed from
    reset() with generative steps, then the single failing transition is executed (both draw sides) and the
    property's oracle is evaluated on just that state / transition / pair.  Only when the violation is of a
    kind that needs the whole graph (path-level, env-object pass) the scenario's graph is re-explored."""
    from .props_dyn import ORACLES
    from .explore import Tr, replay_history
    from .seams import draw_values
    spec = rec["scenario"]
    spec = spec_from_json(spec) if "subnets" in spec else spec
    pid = rec["property"]
    if pid not in ORACLES:
        raise HarnessError(f"no sweep oracle for {pid}")
    ctx = make_ctx(spec, rec["binding"], need_fo=(pid == "C08"))
    oracle = ORACLES[pid]()
    tr_desc = rec.get("transition")
    try:
        oracle.on_scenario(ctx)
        s = replay_history(ctx, rec.get("history", []))
        key = s.tensor.tobytes()
        ms = ctx.decode(key, s.tensor)
        ctx.parent[key] = None
        oracle.on_state(ctx, s, key, ms)
        if tr_desc is not None:
            a_idx = tr_desc["action_index"]
            mact = ctx.mactions[a_idx]
            pair = []
            for side in (("below",) if mact["type"] == "noop" else ("below", "above")):
                tr = Tr()
                tr.s, tr.key, tr.ms, tr.a_idx, tr.action, tr.mact = s, key, ms, a_idx, ctx.actions[a_idx], mact
                tr.side, tr.draw, tr.extra, tr.obs_fo = side, draw_values(mact["prob"])[side], None, None
                if hasattr(oracle, "pre_transition"):
                    oracle.pre_transition(ctx, s, key, tr.action, side)
                ctx.seam.arm(tr.draw)
                s2, obs, reward, done, info = ctx.env.generative_step(s, tr.action)
                tr.ndraws = ctx.seam.calls
                tr.s2, tr.obs, tr.reward, tr.done, tr.info = s2, obs, reward, done, info
                tr.key2 = s2.tensor.tobytes()
                tr.new_state = False
                tr.ms2 = ctx.decode(tr.key2, s2.tensor)
                tr.exp = ctx.model.step(ms, mact, tr.draw)
                oracle.on_transition(ctx, tr)
                pair.append(tr)
            if len(pair) == 2:
                oracle.on_pair(ctx, pair[0], pair[1])
        hits = [v for v in ctx.violations if v["kind"] == rec["kind"]]
        if hits:
            for h in hits:
                h["replayed"] = "history + single transition, without the explorer"
            return hits
    except HarnessError:
        raise
    except Exception:
        pass
    # graph-level kinds (paid-twice paths, reset / step-limit / step-agreement passes, parameter-vector pass)
    ctx = make_ctx(spec, rec["binding"], need_fo=(pid == "C08"))
    big = spec.get("_path_only") or len(spec.get("hosts", ())) > 8
    expand_only = None
    if big:
        # scenarios that are only ever explored around the reference plan are replayed the same way
        from .explore import plan_path_keys
        expand_only = plan_path_keys(ctx, cap=spec.get("_path_cap") or 12)
    res = explore(ctx, [ORACLES[pid]()], expand_only=expand_only)
    from .chk_sweep import POST, PARAM_PASS
    if pid in PARAM_PASS and not big:
        explore(ctx, [ORACLES[pid]()], action_rep="param")
    for mod_name in POST.get(pid, []):
        import importlib
        importlib.import_module(f"mc.{mod_name}").post_explore(ctx, res, [pid], {})
    hits = [v for v in ctx.violations if v["kind"] == rec["kind"]]
    return hits or ctx.violations
