"""Deviation-bounded stateless exploration of the REAL ScenarioGenerator.generate (CHESS-style).

The generator is sequential code whose environment is the NumPy global RNG.  Every call of
np.random.{choice, randint, rand, random_sample, poisson} made inside nasim/scenarios/generator.py goes
through the RNG seam (module global `np` of generator.py replaced) and is a *choice point* with a finite
menu of answers.  The default answer is what RandomState(seed) answers (a fair default: correct
retry-until-new loops terminate); a *deviation* forces another menu entry at one point, after which
defaults resume.  All executions with 0 deviations, then 1 (then 2) are enumerated.

Waiting is made visible: each execution has a horizon of choice points; on a horizon hit the explorer
decides exactly whether ANY answer at the stuck call site can change the loop's progress state
(container sizes + integer locals of the calling frame); if none can, the verdict is livelock.

The set-order seam (module global `set` of generator.py shadowing the builtin) gives the explorer control
over the iteration order of every set the generator builds (C14).
"""
import sys

import numpy as _np

from .common import HarnessError, import_nasim

HORIZON = 3000
EPS = 1e-9


class Horizon(Exception):
    pass


class _Dev(Exception):
    pass


class Divergence(Exception):
    """replaying a recorded prefix reached a choice point with a different menu: the generator's behaviour
    depends on something other than its parameters and the RNG answers (hidden state between calls)"""


# ------------------------------------------------------------------------------------------- set-order seam
class OrderedChoiceSet:
    """duck-typed set (complete set API) whose iteration order is decided by the explorer.  Not a subclass of
    set: builtin set methods on a subclass return plain sets and iterate without asking."""
    controller = None     # GenRun that owns iteration orders
    __hash__ = None

    def __init__(self, it=()):
        self._d = {}
        for x in it:
            self._d[x] = None

    # ---- element operations
    def add(self, x):
        self._d[x] = None

    def remove(self, x):
        del self._d[x]

    def discard(self, x):
        self._d.pop(x, None)

    def pop(self):
        for x in self:
            del self._d[x]
            return x
        raise KeyError("pop from an empty set")

    def clear(self):
        self._d.clear()

    def copy(self):
        c = OrderedChoiceSet()
        c._d = dict(self._d)
        return c

    def __contains__(self, x):
        return x in self._d

    def __len__(self):
        return len(self._d)

    def __iter__(self):
        items = sorted(self._d.keys(), key=repr)
        ctl = OrderedChoiceSet.controller
        if ctl is not None:
            items = ctl.order_point(items)
        return iter(items)

    def __repr__(self):
        return "OrderedChoiceSet(%r)" % sorted(self._d, key=repr)

    # ---- helpers (membership based, never iterate `self` in an order-revealing way)
    @staticmethod
    def _keys(other):
        if isinstance(other, OrderedChoiceSet):
            return list(other._d.keys())
        return list(other)

    def _new(self, keys):
        c = OrderedChoiceSet()
        for k in keys:
            c._d[k] = None
        return c

    # ---- in-place bulk operations
    def update(self, *others):
        for o in others:
            for x in self._keys(o):
                self._d[x] = None

    def difference_update(self, *others):
        for o in others:
            for x in self._keys(o):
                self._d.pop(x, None)

    def intersection_update(self, *others):
        for o in others:
            keep = set(self._keys(o))
            for x in list(self._d):
                if x not in keep:
                    del self._d[x]

    def symmetric_difference_update(self, other):
        for x in self._keys(other):
            if x in self._d:
                del self._d[x]
            else:
                self._d[x] = None

    def __ior__(self, other):
        self.update(other); return self

    def __isub__(self, other):
        self.difference_update(other); return self

    def __iand__(self, other):
        self.intersection_update(other); return self

    def __ixor__(self, other):
        self.symmetric_difference_update(other); return self

    # ---- new-set operations
    def union(self, *others):
        c = self.copy(); c.update(*others); return c

    def difference(self, *others):
        c = self.copy(); c.difference_update(*others); return c

    def intersection(self, *others):
        c = self.copy(); c.intersection_update(*others); return c

    def symmetric_difference(self, other):
        c = self.copy(); c.symmetric_difference_update(other); return c

    __or__ = lambda self, o: self.union(o)
    __ror__ = lambda self, o: self.union(o)
    __sub__ = lambda self, o: self.difference(o)
    __and__ = lambda self, o: self.intersection(o)
    __rand__ = lambda self, o: self.intersection(o)
    __xor__ = lambda self, o: self.symmetric_difference(o)
    __rxor__ = lambda self, o: self.symmetric_difference(o)

    def __rsub__(self, other):
        return self._new([x for x in self._keys(other) if x not in self._d])

    # ---- comparisons
    def __eq__(self, other):
        try:
            return set(self._d) == set(self._keys(other)) if isinstance(other, (OrderedChoiceSet, set, frozenset)) else NotImplemented
        except TypeError:
            return NotImplemented

    def __ne__(self, other):
        r = self.__eq__(other)
        return r if r is NotImplemented else not r

    def issubset(self, other):
        o = set(self._keys(other))
        return all(x in o for x in self._d)

    def issuperset(self, other):
        return all(x in self._d for x in self._keys(other))

    def isdisjoint(self, other):
        return not any(x in self._d for x in self._keys(other))

    __le__ = lambda self, o: self.issubset(o)
    __ge__ = lambda self, o: self.issuperset(o)
    __lt__ = lambda self, o: self.issubset(o) and len(self) < len(self._keys(o))
    __gt__ = lambda self, o: self.issuperset(o) and len(self) > len(self._keys(o))


# ------------------------------------------------------------------------------------------- RNG seam
class _GenRandom:
    def __init__(self, run):
        self.run = run

    def seed(self, s=None):
        self.run.rs = _np.random.RandomState(s)

    def _site(self):
        f = sys._getframe(2)
        while f is not None and not f.f_code.co_filename.endswith("generator.py"):
            f = f.f_back
        return f

    def choice(self, a, size=None, replace=True, p=None):
        default = self.run.rs.choice(a, size=size, replace=replace, p=p)
        seq = list(range(a)) if isinstance(a, (int, _np.integer)) else list(a)
        if p is not None:
            menu_src = [x for x, pp in zip(seq, p) if pp > 0]
        else:
            menu_src = seq
        if size is None:
            menu = [("elem", x) for x in menu_src]
            pick = self.run.point("choice", self._site(), default, menu)
            if pick is None:
                return default
            if isinstance(a, (int, _np.integer)):
                return _np.int64(pick[1])
            # reproduce NumPy's return type for a sequence of str/None/dict
            arr = _np.array(seq, dtype=object) if not all(isinstance(x, str) for x in seq) else _np.array(seq)
            try:
                idx = next(i for i, x in enumerate(seq) if x is pick[1] or (isinstance(x, str) and x == pick[1]))
            except StopIteration:
                idx = 0
            return arr[idx]
        n = int(size)
        menu = [("pos", j, x) for j in range(n) for x in menu_src]
        pick = self.run.point("choice[size]", self._site(), default, menu)
        if pick is None:
            return default
        out = _np.array(default, dtype=object) if default.dtype == object else default.copy()
        out[pick[1]] = pick[2]
        return out

    def randint(self, low, high=None, size=None, dtype=int):
        default = self.run.rs.randint(low, high, size=size)
        lo, hi = (0, low) if high is None else (low, high)
        menu = [("int", v) for v in range(int(lo), int(hi))]
        pick = self.run.point("randint", self._site(), default, menu)
        return default if pick is None else type(default)(pick[1]) if not hasattr(default, "dtype") else default.dtype.type(pick[1])

    def rand(self, *shape):
        default = self.run.rs.rand(*shape)
        if shape:
            self.run.point("rand[shape]", self._site(), default, [])
            return default
        pick = self.run.point("rand", self._site(), default, [("u", EPS), ("u", 1.0 - EPS)])
        return default if pick is None else pick[1]

    def random_sample(self, size=None):
        default = self.run.rs.random_sample(size)
        if size is None:
            pick = self.run.point("random_sample", self._site(), default, [("u", EPS), ("u", 1.0 - EPS)])
            return default if pick is None else pick[1]
        n = int(size)
        menu = [("all", 0.5), ("all", 1.0 - EPS), ("all", 1e-6)]
        pick = self.run.point("random_sample[n]", self._site(), default, menu)
        return default if pick is None else _np.full(n, pick[1])

    def random(self, size=None):
        return self.random_sample(size)

    def poisson(self, lam=1.0, size=None):
        default = self.run.rs.poisson(lam, size)
        pick = self.run.point("poisson", self._site(), default, [("int", v) for v in (0, 1, 2, 3)])
        return default if pick is None else type(default)(pick[1]) if not hasattr(default, "dtype") else default.dtype.type(pick[1])

    def __getattr__(self, k):
        self.run.other_entropy.append(k)
        return getattr(self.run.rs, k)


class _GenNumpy:
    def __init__(self, run):
        self.random = _GenRandom(run)

    def __getattr__(self, k):
        return getattr(_np, k)


def _progress_state(frame):
    """progress-relevant part of the calling frame: sizes of containers and integer locals"""
    out = []
    for k, v in sorted(frame.f_locals.items()):
        if k == "self":
            continue
        if isinstance(v, (dict, list, set, OrderedChoiceSet)):
            out.append((k, "len", len(v)))
        elif isinstance(v, (int, _np.integer)) and not isinstance(v, bool):
            out.append((k, "int", int(v)))
    return (frame.f_code.co_name, tuple(out))


class GenRun:
    """one execution of the generator under a schedule = {choice point index: menu index},
    and (for C14) an order schedule = {materialisation index: order name}"""

    def __init__(self, schedule=None, orders=None, horizon=HORIZON, probe=None):
        self.schedule = dict(schedule or {})
        self.orders = dict(orders or {})
        self.horizon = horizon
        self.rs = _np.random.RandomState(0)
        self.points = []          # (kind, site name, menu size, default repr)
        self.order_points = []    # sizes of materialised sets
        self.other_entropy = []
        self.stuck = None
        self.probe = probe        # (index, menu answer) used by the livelock confirmation
        self.probe_result = None

    # ---- RNG choice point
    def point(self, kind, frame, default, menu):
        idx = len(self.points)
        site = frame.f_code.co_name if frame is not None else "?"
        self.points.append((kind, site, len(menu)))
        if self.probe is not None:
            if idx == self.probe[0] + 1:
                self.probe_result = _progress_state(frame) if frame is not None else None
                raise _Dev()
            if idx == self.probe[0]:
                return menu[self.probe[1]] if self.probe[1] < len(menu) else None
        if idx >= self.horizon:
            self.stuck = {"index": idx, "site": site, "kind": kind, "menu": len(menu),
                          "progress": _progress_state(frame) if frame is not None else None,
                          "locals": _locals_summary(frame)}
            raise Horizon()
        alt = self.schedule.get(idx)
        if alt is None:
            return None
        if alt >= len(menu):
            raise Divergence(f"schedule names answer {alt} at point {idx} but menu has {len(menu)} entries")
        return menu[alt]

    # ---- set materialisation point
    def order_point(self, items):
        idx = len(self.order_points)
        self.order_points.append(len(items))
        o = self.orders.get(idx)
        if o is None or len(items) < 2:
            return items
        if o == "reversed":
            return list(reversed(items))
        if isinstance(o, str) and o.startswith("rot"):
            k = int(o[3:]) % len(items)
            return items[k:] + items[:k]
        if isinstance(o, (list, tuple)):       # explicit permutation
            return [items[i] for i in o]
        return items


def _locals_summary(frame):
    if frame is None:
        return {}
    out = {}
    for k, v in frame.f_locals.items():
        if k == "self":
            continue
        try:
            r = repr(v if not isinstance(v, _np.ndarray) else v.tolist())
        except Exception:
            r = "?"
        out[k] = r[:200]
    return out


_installed = None
_GENERATOR = None


def install():
    """replace the module globals `np` and `set` of nasim.scenarios.generator (idempotent)"""
    global _installed
    import_nasim()
    import nasim.scenarios.generator as g
    if _installed is None:
        _installed = {"np": g.np, "had_set": "set" in g.__dict__}
    return g


def uninstall():
    global _installed
    if _installed is None:
        return
    import nasim.scenarios.generator as g
    g.np = _installed["np"]
    if "set" in g.__dict__:
        del g.__dict__["set"]
    OrderedChoiceSet.controller = None
    _installed = None


def execute(params, schedule=None, orders=None, horizon=HORIZON, probe=None, control_sets=True):
    """Run generate(**params) under the seams. Returns (run, scenario or None, exception or None)."""
    g = install()
    run = GenRun(schedule, orders, horizon, probe)
    g.np = _GenNumpy(run)
    if control_sets:
        g.set = OrderedChoiceSet
        OrderedChoiceSet.controller = run
    elif "set" in g.__dict__:
        del g.__dict__["set"]
    sc, exc = None, None
    try:
        # ONE generator object per process, reused for every execution: generate() may be called any number of
        # times on the same ScenarioGenerator and must not remember anything from the previous call
        global _GENERATOR
        if _GENERATOR is None or not isinstance(_GENERATOR, g.ScenarioGenerator):
            _GENERATOR = g.ScenarioGenerator()
        sc = _GENERATOR.generate(**params)
    except Horizon:
        exc = "horizon"
    except _Dev:
        exc = "probe"
    except Divergence:
        exc = "divergence"
    except HarnessError:
        raise
    except Exception as e:        # exception escaping the generator: reported by the caller
        tb = e.__traceback__
        site = "?"
        while tb is not None:
            if tb.tb_frame.f_code.co_filename.endswith("generator.py"):
                site = tb.tb_frame.f_code.co_name
            tb = tb.tb_next
        exc = {"type": type(e).__name__, "msg": str(e)[:200], "site": site}
    finally:
        OrderedChoiceSet.controller = None
    return run, sc, exc


def confirm_livelock(params, schedule, stuck, orders=None):
    """Exact confirmation at the stuck call: force each menu answer in turn at the stuck point and look at
    the progress state at the NEXT choice point. Livelock iff no answer changes it."""
    base = stuck["progress"]
    idx = stuck["index"]
    changed = []
    for alt in range(max(1, stuck["menu"])):
        run, _, exc = execute(params, schedule, orders, horizon=idx + 5, probe=(idx, alt))
        if exc != "probe" or run.probe_result != base:
            changed.append(alt)
    return len(changed) == 0, changed


def explore_params(params, max_dev=1, on_result=None, dev_cap=None):
    """Enumerate all executions of generate(**params) with <= max_dev deviations from the fair default.
    on_result(schedule, run, scenario, exc) is called for every execution.
    Returns counts."""
    counts = {"executions": 0, "points": 0, "capped": 0}
    base_run, sc, exc = execute(params)
    # horizon of the deviated runs: ten times the length of the default run (a deviation moves the
    # execution by a handful of points; retry loops that cannot progress run into this bound)
    hz = HORIZON if exc == "horizon" else min(HORIZON, 10 * len(base_run.points) + 300)
    counts["horizon"] = hz
    counts["executions"] += 1
    counts["points"] += len(base_run.points)
    if on_result:
        on_result({}, base_run, sc, exc)
    # determinism of the object under exploration: the default run repeated must consume the same choice points
    rep_run, rep_sc, rep_exc = execute(params)
    counts["executions"] += 1
    counts["default_run_not_repeatable"] = int(rep_run.points != base_run.points or (rep_exc is None) != (exc is None))
    if counts["default_run_not_repeatable"] and on_result:
        on_result({"repeat": True}, rep_run, rep_sc, "not_repeatable")
    if max_dev < 1 or exc == "horizon":
        # a default run that already fails to terminate is reported as such; deviating inside a
        # non-terminating run adds nothing but horizon-length executions
        return counts
    frontier = [({}, base_run)]
    for depth in range(1, max_dev + 1):
        nxt = []
        for sched, run in frontier:
            start = (max(sched) + 1) if sched else 0
            npts = min(len(run.points), hz)
            for i in range(start, npts):
                kind, site, msize = run.points[i]
                for alt in range(msize):
                    s2 = dict(sched)
                    s2[i] = alt
                    if dev_cap is not None and counts["executions"] >= dev_cap:
                        counts["capped"] += 1
                        return counts
                    r2, sc2, exc2 = execute(params, s2, horizon=hz)
                    counts["executions"] += 1
                    if on_result:
                        on_result(s2, r2, sc2, exc2)
                    if depth < max_dev and exc2 is None:
                        nxt.append((s2, r2))
        frontier = nxt
    return counts
