"""C01-C08, C13: family sweep with the property's own oracle armed."""
import time

from .common import HarnessError, EXIT_HARNESS
from .evidence import finish, rotate
from .sweep import run_family, replay_sweep_record

RULES = {
    "C01": "every (reachable state, action, draw side) of every family scenario on the real generative_step; "
           "non-trivial = transition in which some host's compromised/access cell changed, or in which the model "
           "says an exploit/escalation is applicable and the draw succeeds",
    "C02": "every (reachable state, action, draw side); non-trivial = transition whose action the reference model "
           "forbids at network level (undiscovered/unreachable target, no pivot, firewall, target not held)",
    "C03": "reachability/discovery invariant on every reachable state + discovery oracle on every transition + reset "
           "from every reachable state; non-trivial = transition that changed the discovered set",
    "C04": "monotonicity + configuration immutability on every transition; reset() from every reachable "
           "(state, steps); non-trivial = state-changing transition (resets counted separately)",
    "C05": "reward oracle on every transition + longest/shortest-path DP over all paths of each state graph; "
           "non-trivial = transition that gained value or failed (cost still paid)",
    "C06": "terminal flag on every transition and goal query on every state; step()/generative_step() from every "
           "(state, steps<=limit+1); non-trivial = transition into a goal state",
    "C07": "every transition with the draw scripted on either side of the action's probability; paired comparison "
           "of the two sides; non-trivial = chance failure, or chance-decided success (0<p<1), or pair with a failed precondition",
    "C08": "every transition observed in partially AND fully observable mode + initial observations; non-trivial = "
           "successful action (observation carries host information)",
    "C13": "byte snapshots around every generative_step with env.current_state set to a different reachable state; "
           "step() vs generative_step() from every reachable state; non-trivial = state-changing transition",
}

ASSUME = [
    "scenario family is the declared finite grammar of mc/family.py (pairwise covering + corner cases + shipped/generated benchmarks), not all scenarios",
    "draw ties (draw == prob) are outside the alphabet",
    "the draw seam replaces the module global `np` of nasim.envs.* (random.rand/random/random_sample/uniform)",
    "reference model (mc/model.py) restates C01-C07 from the property text; every implementation transition is compared with it",
]

# properties whose oracle depends on the action DEFINITION (cost, prob, service, access ...): swept a second
# time with every action passed as a parameter vector to a parameterised-action environment
PARAM_PASS = {"C01", "C02", "C05", "C06", "C07", "C08"}
POST = {"C03": ["envobj"], "C04": ["envobj"], "C05": ["envobj"], "C06": ["envobj"], "C13": ["envobj"]}
NEEDED_CLASSES = {
    "C01": ["exploit|success", "privesc|success", "exploit|host_fail", "privesc|host_fail", "privesc|gate:target_not_held"],
    "C02": ["exploit|gate:firewall", "exploit|gate:no_pivot",
            "exploit|gate:undiscovered_or_unreachable", "subnet_scan|gate:target_not_held",
            "process_scan|gate:target_not_held", "privesc|gate:target_not_held"],
    "C03": ["subnet_scan|success", "exploit|success"],
    "C05": ["exploit|success", "subnet_scan|success", "exploit|chance_fail"],
    "C07": ["exploit|chance_fail", "privesc|chance_fail", "exploit|gate:firewall"],
}


def large_plan_walk(tier):
    """C06 on scenarios far too large for the state graph (up to 95 hosts): every PREFIX of the reference model's
    closure plan is walked through step(); after each step the terminal flag, goal_reached(state) and the
    no-argument goal_reached() must all equal 'root on every sensitive host' of the installed state."""
    from .common import import_nasim
    nasim = import_nasim()
    from nasim.envs import NASimEnv
    from .layout import Layout
    from .model import Model, CLASS_TO_TYPE
    from .spec import spec_from_scenario
    from .sweep import seam
    sm = seam()
    viol, steps, scen = [], 0, 0
    names = ["medium-gen", "large-gen", "huge-gen", "pocp-1-gen", "pocp-2-gen"]
    jobs = [(name, seed) for name in names for seed in ((0, 1) if tier == "quick" else range(5))]
    jobs += [(("generate", 140, 3), 0)] + ([(("generate", 200, 2), 1)] if tier == "thorough" else [])
    for name, seed in jobs:
        if True:
            if isinstance(name, tuple):
                sc = nasim.generate_scenario(name[1], name[2], seed=seed, step_limit=None)
                name = f"generate({name[1]},{name[2]})"
            else:
                sc = nasim.make_benchmark_scenario(name, seed=seed)
            spec = spec_from_scenario(sc, name=f"{name}-s{seed}")
            if any(not isinstance(h["os"], str) for h in spec["hosts"].values()):
                continue
            env = NASimEnv(sc)
            lay = Layout(spec)
            env.reset()
            if not lay.bind_rows(env.current_state.tensor):
                continue
            model = Model(spec, lay.addrs)
            ms, plan = model.closure_plan()
            index = {(CLASS_TO_TYPE[type(a).__name__], a.name, (int(a.target[0]), int(a.target[1]))): i
                     for i, a in enumerate(env.action_space.actions)}
            env.get_score_upper_bound()
            scen += 1
            for act in plan:
                i = index.get((act["type"], act["name"], tuple(act["target"])))
                if i is None:
                    break
                sm.arm(1e-12)
                o, r, done, trunc, info = env.step(i)
                steps += 1
                st = lay.status(env.current_state.tensor)
                want = model.goal(st)
                got = (bool(done), bool(env.goal_reached(env.current_state)), bool(env.goal_reached()))
                if got != (want, want, want):
                    viol.append({"property": "C06", "kind": "goal_signals_wrong_on_large_scenario", "engine": "plan_walk",
                                 "generator": {"benchmark": name, "seed": seed}, "step": steps,
                                 "detail": {"(terminal, goal_reached(state), goal_reached())": list(got),
                                            "root_on_all_sensitive_hosts": want, "plan_step": f"{act['type']} {act['name']} {act['target']}"}})
                    break
                if done:
                    break
    return viol, steps, scen


def run(pid, tier):
    t0 = time.time()
    opts = {"post": POST.get(pid, []), "param_pass": pid in PARAM_PASS}
    agg, violations, errors = run_family([pid], tier, opts)
    walk = None
    if pid == "C06":
        wv, wsteps, wscen = large_plan_walk(tier)
        violations = list(violations) + wv
        walk = {"large_scenarios_walked": wscen, "steps": wsteps}
    # the environment OBJECT as a state machine (mc/apiseq.py): all two-episode route pairs and all one-perturbation
    # programs over the public API on the small API scenarios, every result compared with the pristine state graph
    from . import apiseq
    api_cov, api_viol = apiseq.check_part(pid, tier)
    violations = list(violations) + api_viol
    concrete = [v for v in violations if v["property"] == pid]
    if errors and not concrete:
        raise HarnessError("; ".join(errors[:3]))
    if errors:
        # a concrete, replayable violation found on one scenario stands whatever went wrong on another one
        import sys
        for e in errors[:3]:
            print(f"NOTE harness error on another scenario (violations are still reported): {e[:300]}", file=sys.stderr)
    # vacuity: the outcome classes this property needs must have been exercised
    missing = [c for c in NEEDED_CLASSES.get(pid, []) if agg["outcome_classes"].get(c, 0) == 0]
    if missing and not concrete:
        raise HarnessError(f"vacuous exploration for {pid}: outcome classes never exercised: {missing}")
    samples = [{"scenario": r[0], "binding": r[1], "hosts": r[2], "actions": r[3], "states": r[4],
                "transitions": r[5]} for r in rotate(agg["per_scenario"], 4)]
    extra = agg.get("extra", {}).get("envobj", {})
    cov = {
        "states": agg["states"],
        "transitions": agg["transitions"] + agg.get("param_transitions", 0) + int(extra.get("resets", 0)) + int(extra.get("steps", 0)),
        "traces_validated_against_impl": agg["transitions"] + agg.get("param_transitions", 0),
        "evaluations": agg["transitions"] + agg.get("param_transitions", 0) + int(extra.get("resets", 0)) + int(extra.get("steps", 0)),
        "distinct_nontrivial": int(agg["nontrivial"].get(pid, 0)),
        "rule": RULES[pid],
        "samples": rotate(agg.get("transition_samples", []), 2) + samples,
        "exhaustive": not agg["capped_scenarios"],
        "scenarios": agg["scenarios"],
        "capped_scenarios": agg["capped_scenarios"],
        "path_bounded_scenarios(name,hosts,states_expanded,transitions)": agg.get("path_bounded_scenarios", []),
        "outcome_classes": agg["outcome_classes"],
        "family_features": agg["features"],
        "env_object_pass": extra,
        "generative_transitions": agg["transitions"],
        "plan_walk_on_large_generated_scenarios": walk,
        "api_sequence_exploration": api_cov,
        "of_which_through_parameter_vectors": agg.get("param_transitions", 0),
        "bound": "complete reachable state graph of every family scenario (<= 8 hosts); for the 16-38 host scenarios listed under "
                 "path_bounded_scenarios: every state on the reference plan x every action x both draws (deviation bound 1 from "
                 "the plan); both draw sides; all flat actions + no-op",
    }
    return finish(pid, tier, cov, [v for v in violations if v["property"] == pid], ASSUME, t0)


def replay(pid, rec):
    if rec.get("engine") == "apiseq":
        from . import apiseq
        return apiseq.replay(rec)
    if rec.get("engine") == "plan_walk":
        v, _, _ = large_plan_walk("quick")
        return [x for x in v if x["generator"] == rec["generator"]]
    return replay_sweep_record(rec)
