"""C10 — Gymnasium contract: observations in space, every action of the space accepted.

For every family scenario and all 8 mode combinations: the reset observation and the observation of
every (reachable state, action) through step() are checked against observation_space (membership,
dtype, shape, advertised dims); every member of the action space is passed to step() in every
representation the statement names (exhaustive over the space, incl. the sampler's own output
with its RNG replaced by an enumerating stub).
"""
import itertools
import time

import numpy as np

from .common import HarnessError, import_nasim
from .evidence import finish, rotate
from .seams import draw_values
from .sweep import run_family

RULE = ("8 mode combinations x (reset observation + step() observation of every reachable state x flat action) "
        "+ every flat index as int/np.int64/np.int32/np.uint16/np.uint8 and every parameterised vector as "
        "list/tuple/np.ndarray[int64,int32,uint8] + enumerated sampler outputs; non-trivial = observation with non-zero host rows, "
        "or accepted action-space member")

MODES = list(itertools.product((False, True), (True, False), (True, False)))   # (fully_obs, flat_actions, flat_obs)
MAX_PARAM_VECTORS = 20000


class _EnumRNG:
    """stands in for a space's np_random so that sample() enumerates the space instead of sampling it"""

    def __init__(self, seq):
        self.seq = list(seq)
        self.i = 0

    def _next(self):
        v = self.seq[self.i % len(self.seq)]
        self.i += 1
        return v

    def integers(self, low=None, high=None, size=None, dtype=np.int64, endpoint=False):
        v = self._next()
        return np.asarray(v, dtype=dtype) if size is not None or isinstance(v, (list, tuple, np.ndarray)) else dtype(v)

    def random(self, size=None):
        v = self._next()
        return np.asarray(v, dtype=np.float64)


def _obs_checks(ctx, env, scenario, o, mode, key, what):
    sp = env.observation_space
    dims = tuple(int(x) for x in scenario.get_observation_dims())
    want_shape = dims if not mode[2] else (dims[0] * dims[1],)
    o_arr = o
    prob = None
    if not isinstance(o_arr, np.ndarray):
        prob = f"observation is {type(o).__name__}, not ndarray"
    elif o_arr.dtype != np.float32:
        prob = f"observation dtype {o_arr.dtype}"
    elif tuple(o_arr.shape) != tuple(sp.shape) or tuple(o_arr.shape) != want_shape:
        prob = f"shape {o_arr.shape} vs space {sp.shape} vs advertised {want_shape}"
    elif not sp.contains(o_arr):
        prob = (f"observation outside observation_space (min {float(o_arr.min())}, max {float(o_arr.max())}, "
                f"space low {float(np.min(sp.low))} high {float(np.max(sp.high))})")
    if prob:
        ctx.report("C10", "observation_violates_space:" + what, key=key,
                   detail={"mode(fully_obs,flat_actions,flat_obs)": list(mode), "problem": prob})
        return False
    return True


def post_explore(ctx, res, pids, opts):
    import_nasim()
    from nasim.envs import NASimEnv
    seam = ctx.seam
    counts = {"observations": 0, "nontrivial": 0, "flat_members": 0, "param_members": 0, "sampled_members": 0,
              "modes": 0, "param_spaces_capped": 0}
    keys = list(res["seen"].keys())
    n_flat = len(ctx.actions) - 1
    if res.get("capped"):
        # capped (16-host) scenarios: observation checks on the first 150 explored states only
        keys = keys[:150]
    for mode in MODES:
        fo, fa, f1 = mode
        env = NASimEnv(ctx.scenario, fully_obs=fo, flat_actions=fa, flat_obs=f1)
        counts["modes"] += 1
        r = env.reset()
        if not (isinstance(r, tuple) and len(r) == 2 and isinstance(r[1], dict)):
            ctx.report("C10", "reset_does_not_return_(observation,info)", key=None, detail={"mode": list(mode)})
            continue
        counts["observations"] += 1
        _obs_checks(ctx, env, ctx.scenario, r[0], mode, None, "reset")
        # ---------------- every reachable state x every flat action, through step()
        ok = True
        for s, key in zip(res["order"][: len(keys)], keys):
            for a_idx in range(n_flat + 1):
                mact = ctx.mactions[a_idx]
                if mact is None:
                    continue
                env.current_state = s
                seam.arm(draw_values(mact["prob"])["below"])
                out = env.step(ctx.actions[a_idx])
                counts["observations"] += 1
                if not (isinstance(out, tuple) and len(out) == 5):
                    ctx.report("C10", "step_does_not_return_5_tuple", key=key, detail={"mode": list(mode)})
                    ok = False
                    break
                o, rew, term, trunc, info = out
                if np.asarray(o).any():
                    counts["nontrivial"] += 1
                if not _obs_checks(ctx, env, ctx.scenario, o, mode, key, "step"):
                    ok = False
                    break
                if not (isinstance(term, (bool, np.bool_)) and isinstance(trunc, (bool, np.bool_))
                        and isinstance(info, dict) and np.isscalar(rew) and np.isreal(rew)):
                    ctx.report("C10", "step_tuple_has_wrong_types", key=key,
                               detail={"mode": list(mode), "types": [type(x).__name__ for x in out]})
                    ok = False
                    break
            if not ok:
                break
        # ---------------- every member of the action space, every representation
        if mode[0] or not mode[2]:
            continue      # action acceptance does not depend on the observation mode: once per action mode
        sp = env.action_space
        s0 = res["order"][0]

        def try_step(a, rep, member):
            env.current_state = s0
            seam.arm(0.5)
            try:
                contained = bool(sp.contains(a))
            except Exception as e:
                contained = f"contains() raised {type(e).__name__}"
            try:
                out = env.step(a)
                _ = out[0]
            except Exception as e:
                ctx.report("C10", "action_space_member_rejected_by_step", key=None,
                           detail={"flat_actions": fa, "member": member, "representation": rep,
                                   "exception": f"{type(e).__name__}: {str(e)[:160]}"})
                return False
            if contained is not True:
                ctx.report("C10", "action_space_does_not_contain_its_member", key=None,
                           detail={"flat_actions": fa, "member": member, "representation": rep, "contains": contained})
                return False
            return True

        if fa:
            if int(sp.n) != n_flat:
                pass    # size is C11's matter; members of the space as built are what C10 quantifies over
            for i in range(int(sp.n)):
                good = True
                reps_ = [("int", int(i)), ("np.int64", np.int64(i)), ("np.int32", np.int32(i)), ("np.uint16", np.uint16(i))]
                if i < 256:
                    reps_.append(("np.uint8", np.uint8(i)))
                for rep, v in reps_:
                    good = try_step(v, rep, i) and good
                counts["flat_members"] += 1
                if not good:
                    break
            # the sampler's own representation, enumerated
            old = sp._np_random
            try:
                sp._np_random = _EnumRNG(list(range(int(sp.n))))
                for i in range(int(sp.n)):
                    v = sp.sample()
                    counts["sampled_members"] += 1
                    if not try_step(v, f"sample():{type(v).__name__}", int(v)):
                        break
            finally:
                sp._np_random = old
        else:
            nvec = [int(x) for x in sp.nvec]
            total = int(np.prod(nvec))
            if total > MAX_PARAM_VECTORS:
                counts["param_spaces_capped"] += 1
                vecs = itertools.islice(itertools.product(*[range(n) for n in nvec]), MAX_PARAM_VECTORS)
            else:
                vecs = itertools.product(*[range(n) for n in nvec])
            for vec in vecs:
                good = True
                for rep, v in (("list", list(vec)), ("tuple", tuple(vec)), ("np.ndarray[int64]", np.array(vec, dtype=np.int64)),
                               ("np.ndarray[int32]", np.array(vec, dtype=np.int32)), ("np.ndarray[uint8]", np.array(vec, dtype=np.uint8))):
                    good = try_step(v, rep, list(vec)) and good
                counts["param_members"] += 1
                if not good:
                    break
            old = sp._np_random
            try:
                corner = [[0] * len(nvec), [n - 1 for n in nvec]]
                mids = [[(n - 1) // 2 for n in nvec]]
                # sampler output for a set of vectors spanning every coordinate value
                span = []
                for d, n in enumerate(nvec):
                    for x in range(n):
                        v = [0] * len(nvec)
                        v[d] = x
                        span.append(v)
                for target in corner + mids + span:
                    # MultiDiscrete.sample() = (random(nvec.shape) * nvec).astype(dtype)
                    sp._np_random = _EnumRNG([[(t + 0.5) / n for t, n in zip(target, nvec)]])
                    v = sp.sample()
                    counts["sampled_members"] += 1
                    if not try_step(v, f"sample():{type(v).__name__}[{getattr(v, 'dtype', '')}]", [int(x) for x in v]):
                        break
            finally:
                sp._np_random = old
    return counts


def generated_reset_observations(tier):
    """reset()/first-step observations of GENERATED scenarios (benchmark sets and grid parameter sets x seeds)
    against the advertised dims and the observation space, in 1D and 2D, partially and fully observable"""
    nasim = import_nasim()
    from nasim.envs import NASimEnv
    from nasim.scenarios.benchmark import AVAIL_GEN_BENCHMARKS
    from .chk_generator import grid, realise
    from .sweep import seam
    sm = seam()
    viol, n = [], 0
    psets = []
    for name in ["tiny-gen", "small-gen", "small-gen-rgoal", "medium-gen", "large-gen", "huge-gen"]:
        for seed in range(6 if tier == "quick" else 30):
            p = dict(AVAIL_GEN_BENCHMARKS[name]); p["seed"] = seed
            psets.append(p)
    for row in grid("quick")[:: (2 if tier == "quick" else 1)]:
        if row["alpha_V"] == 1.0 or row["num_privescs"] not in ("none", "one"):
            continue
        for seed in range(4 if tier == "quick" else 12):
            psets.append(realise(row, seed))
    for seed in range(20 if tier == "quick" else 60):
        psets.append({"num_hosts": 8, "num_services": 4, "num_exploits": 3, "seed": seed})
    # more hosts than vector columns, extreme values on late rows, fractional extremes
    for seed in range(2 if tier == "quick" else 6):
        psets.append({"num_hosts": 40, "num_services": 3, "r_sensitive": 20, "r_user": 60, "seed": seed})
        psets.append({"num_hosts": 60, "num_services": 2, "num_os": 1, "num_processes": 1, "r_sensitive": 7.5,
                      "r_user": 90.5, "base_host_value": -2.5, "host_discovery_value": 3, "seed": seed})
    for p in psets:
        try:
            sc = nasim.generate_scenario(**dict(p))
        except Exception:
            continue            # C15's matter
        sc.name = "verif"
        dims = tuple(int(x) for x in sc.get_observation_dims())
        for fo, f1 in ((False, True), (True, False)):
            try:
                env = NASimEnv(sc, fully_obs=fo, flat_actions=True, flat_obs=f1)
                o, _ = env.reset()
                sm.arm(1e-9)
                o2, *_ = env.step(0)
            except HarnessError:
                raise
            except Exception as e:
                # environments are built one after the other in this process; building, resetting or stepping one for a
                # valid generated scenario must not fail because of the ones built before
                import traceback
                viol.append({"property": "C10", "kind": "exception_while_exploring:" + type(e).__name__,
                             "engine": "generated", "params": {k: v for k, v in p.items()},
                             "detail": {"fully_obs": fo, "flat_obs": f1, "problem": "exception " + str(e)[:120],
                                        "trace": traceback.format_exc()[-600:]}})
                break
            n += 2
            want = dims if not f1 else (dims[0] * dims[1],)
            for what, ob in (("reset", o), ("step", o2)):
                prob = None
                if tuple(np.asarray(ob).shape) != want or tuple(env.observation_space.shape) != want:
                    prob = f"shape {np.asarray(ob).shape} / space {env.observation_space.shape} vs advertised {want}"
                elif np.asarray(ob).dtype != np.float32:
                    prob = f"dtype {np.asarray(ob).dtype}"
                elif not env.observation_space.contains(ob):
                    prob = "outside observation_space"
                if prob:
                    viol.append({"property": "C10", "kind": "observation_violates_space:generated_" + what,
                                 "engine": "generated", "params": {k: v for k, v in p.items()},
                                 "detail": {"fully_obs": fo, "flat_obs": f1, "problem": prob}})
                    break
    # reset(seed=k) for non-negative ints of any size (Gymnasium's contract): still the (observation, info) tuple
    try:
        sc_ = nasim.generate_scenario(num_hosts=5, num_services=2, seed=0)
        e_ = NASimEnv(sc_)
        for k in (0, 1, 2 ** 31, 2 ** 32, 2 ** 63 + 5):
            try:
                r_ = e_.reset(seed=k)
                n += 1
                okk = isinstance(r_, tuple) and len(r_) == 2 and isinstance(r_[1], dict) and e_.observation_space.contains(r_[0])
                prob_ = None if okk else "reset(seed=%d) did not return (observation in space, info dict)" % k
            except Exception as e:
                prob_ = "reset(seed=%d) raised %s: %s" % (k, type(e).__name__, str(e)[:80])
            if prob_:
                viol.append({"property": "C10", "kind": "reset_with_seed_violates_the_contract", "engine": "generated_pair",
                             "params": {"num_hosts": 5, "num_services": 2, "seed": 0}, "pair": [],
                             "detail": {"fully_obs": False, "flat_obs": True, "problem": prob_}})
                break
    except HarnessError:
        raise
    # two LIVE environments with one vector layout (common address_space_bounds - what that parameter is for) but a
    # different number of hosts, stepped in turn with failing and succeeding draws: each one's observations must stay
    # members of ITS OWN space
    for fo in (False, True):
        for na, nb in ((6, 9), (9, 5)):
            pa = {"num_hosts": na, "num_services": 3, "address_space_bounds": (5, 6), "seed": 1}
            pb = {"num_hosts": nb, "num_services": 3, "address_space_bounds": (5, 6), "seed": 2}
            try:
                sa, sb = nasim.generate_scenario(**pa), nasim.generate_scenario(**pb)
                if (list(sa.os), list(sa.services), list(sa.processes)) != (list(sb.os), list(sb.services), list(sb.processes)):
                    continue
                ea = NASimEnv(sa, fully_obs=fo, flat_actions=True, flat_obs=True)
                eb = NASimEnv(sb, fully_obs=fo, flat_actions=True, flat_obs=True)
                ea.reset(); eb.reset()
                for side in (1.0 - 1e-9, 1e-9):
                    for i in range(min(int(ea.action_space.n), int(eb.action_space.n), 60)):
                        for who, env, p in (("A", ea, pa), ("B", eb, pb)):
                            sm.arm(side)
                            ob, *_ = env.step(i)
                            n += 1
                            want = tuple(env.observation_space.shape)
                            dims = tuple(int(x) for x in env.scenario.get_observation_dims())
                            if tuple(np.asarray(ob).shape) != want or want != (dims[0] * dims[1],) \
                                    or not env.observation_space.contains(ob):
                                viol.append({"property": "C10", "kind": "observation_violates_space:two_live_environments",
                                             "engine": "generated_pair", "params": p, "pair": [pa, pb],
                                             "detail": {"fully_obs": fo, "flat_obs": True, "victim": who, "action": i,
                                                        "problem": f"shape {np.asarray(ob).shape} vs space {want}"}})
                                raise StopIteration
                # closing ONE environment must leave the other one usable: all its actions again, succeeding draws
                ea.close()
                eb.reset()
                for i in range(min(int(eb.action_space.n), 60)):
                    sm.arm(1e-9)
                    ob, *_ = eb.step(i)
                    n += 1
                    if not eb.observation_space.contains(ob):
                        viol.append({"property": "C10", "kind": "observation_violates_space:after_another_environment_was_closed",
                                     "engine": "generated_pair", "params": pb, "pair": [pa, pb],
                                     "detail": {"fully_obs": fo, "flat_obs": True, "action": i, "problem": "outside space after close() of the other environment"}})
                        raise StopIteration
            except StopIteration:
                pass
            except HarnessError:
                raise
            except Exception as e:
                viol.append({"property": "C10", "kind": "exception_while_exploring:" + type(e).__name__,
                             "engine": "generated_pair", "params": pa, "pair": [pa, pb],
                             "detail": {"fully_obs": fo, "flat_obs": True, "problem": "exception " + str(e)[:120]}})
    seen, uniq = set(), []
    for v in viol:
        k = (v["kind"], v["detail"]["problem"][:20])
        if k not in seen:
            seen.add(k); uniq.append(v)
    return uniq, n


def run(pid, tier):
    t0 = time.time()
    agg, violations, errors = run_family(["C10"], tier, {"post": ["chk_gym"]})
    gen_viol, gen_n = generated_reset_observations(tier)
    if errors:
        raise HarnessError("; ".join(errors[:3]))
    ex = agg.get("extra", {}).get("chk_gym", {})
    members = int(ex.get("flat_members", 0)) + int(ex.get("param_members", 0)) + int(ex.get("sampled_members", 0))
    if members == 0 or int(ex.get("observations", 0)) == 0:
        raise HarnessError("vacuous C10 run")
    samples = [{"scenario": r[0], "binding": r[1], "hosts": r[2], "flat_actions": r[3] - 1, "states": r[4]}
               for r in rotate(agg["per_scenario"], 4)]
    cov = {
        "states": agg["states"],
        "transitions": int(ex.get("observations", 0)),
        "traces_validated_against_impl": int(ex.get("observations", 0)),
        "evaluations": int(ex.get("observations", 0)) + members,
        "distinct_nontrivial": int(ex.get("nontrivial", 0)) + members,
        "rule": RULE, "samples": samples,
        "exhaustive": int(ex.get("param_spaces_capped", 0)) == 0 and not agg["capped_scenarios"],
        "scenarios": agg["scenarios"], "modes_built": int(ex.get("modes", 0)),
        "flat_members_x5_representations": int(ex.get("flat_members", 0)),
        "param_vectors_x5_representations": int(ex.get("param_members", 0)),
        "enumerated_sampler_outputs": int(ex.get("sampled_members", 0)),
        "param_spaces_capped_at_%d" % MAX_PARAM_VECTORS: int(ex.get("param_spaces_capped", 0)),
        "family_features": agg["features"],
        "bound": "complete reachable graphs; 8 modes; every flat index; every parameterised vector (cap %d per scenario)" % MAX_PARAM_VECTORS,
    }
    assume = ["sample() is enumerated by replacing the space's np_random with a stub; 0-d ndarray inputs are not demanded",
              "observations are produced by step() with the state installed through the public current_state attribute"]
    cov["generated_scenario_observations"] = gen_n
    return finish(pid, tier, cov, [v for v in violations if v["property"] == "C10"] + gen_viol, assume, t0)


def replay(pid, rec):
    if rec.get("engine") == "generated_pair":
        v, _ = generated_reset_observations("quick")
        return [x for x in v if x.get("engine") == "generated_pair"]
    if rec.get("engine") == "generated":
        nasim = import_nasim()
        from nasim.envs import NASimEnv
        sc = nasim.generate_scenario(**rec["params"])
        dims = tuple(int(x) for x in sc.get_observation_dims())
        d = rec["detail"]
        try:
            env = NASimEnv(sc, fully_obs=d["fully_obs"], flat_actions=True, flat_obs=d["flat_obs"])
            o, _ = env.reset()
            want = dims if not d["flat_obs"] else (dims[0] * dims[1],)
            bad = tuple(np.asarray(o).shape) != want or not env.observation_space.contains(o)
        except Exception as e:
            return [{"kind": rec["kind"], "detail": {"exception": type(e).__name__}}]
        if bad:
            return [{"kind": rec["kind"], "detail": {"shape": list(np.asarray(o).shape), "advertised": list(want)}}]
        # not reproduced by this environment alone: it may need the environments built before it in the same process
        v, _ = generated_reset_observations("quick")
        return [x for x in v if x["params"] == rec["params"] or x["kind"] == rec["kind"]]
    from .sweep import make_ctx
    from .explore import explore
    from .spec import spec_from_json
    spec = rec["scenario"]
    spec = spec_from_json(spec) if "subnets" in spec else spec
    ctx = make_ctx(spec, rec["binding"])
    from .sweep import replay_explore
    res = replay_explore(ctx)
    post_explore(ctx, res, ["C10"], {})
    return [v for v in ctx.violations if v["kind"] == rec["kind"]] or ctx.violations
