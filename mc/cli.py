"""Command line: ./check <Cxx> [--tier quick|thorough] [--replay file]"""
import argparse
import importlib
import json
import os
import sys
import time
import traceback

from .common import EXIT_HARNESS, EXIT_OK, EXIT_VIOLATION, HarnessError

# property -> module implementing run(tier) / replay(record)
MODULES = {
    "C01": "chk_sweep", "C02": "chk_sweep", "C03": "chk_sweep", "C04": "chk_sweep", "C05": "chk_sweep",
    "C06": "chk_sweep", "C07": "chk_sweep", "C08": "chk_sweep", "C13": "chk_sweep",
    "C09": "chk_layout", "C10": "chk_gym", "C11": "chk_actions", "C12": "chk_modes",
    "C14": "chk_repro", "C15": "chk_generator", "C16": "chk_solvable", "C17": "chk_loader",
    "C18": "chk_malformed", "C19": "chk_isolation", "C20": "chk_bound",
}


def main(argv):
    ap = argparse.ArgumentParser(prog="check")
    ap.add_argument("property")
    ap.add_argument("--tier", default=os.environ.get("VERIF_TIER", "quick"), choices=["quick", "thorough"])
    ap.add_argument("--replay", default=None)
    args = ap.parse_args(argv)
    pid = args.property.upper()
    if pid not in MODULES:
        print(f"unknown property {pid}", file=sys.stderr)
        return EXIT_HARNESS
    try:
        mod = importlib.import_module(f"mc.{MODULES[pid]}")
    except ImportError as e:
        print(f"HARNESS-ERROR property={pid} check module missing: {e}", file=sys.stderr)
        return EXIT_HARNESS
    t0 = time.time()
    try:
        if args.replay:
            with open(args.replay) as f:
                rec = json.load(f)
            hits = mod.replay(pid, rec)
            if hits:
                print(f"VIOLATION property={pid} replay={args.replay}")
                print(json.dumps(hits[0], indent=1, default=str)[:4000])
                return EXIT_VIOLATION
            print(f"replay: violation not reproduced on this tree ({args.replay})")
            return EXIT_OK
        rc = mod.run(pid, args.tier)
        print(f"[{pid} {args.tier}] exit={rc} wall={time.time() - t0:.1f}s")
        return rc
    except HarnessError as e:
        print(f"HARNESS-ERROR property={pid}: {e}", file=sys.stderr)
        return EXIT_HARNESS
    except Exception:
        traceback.print_exc()
        print(f"HARNESS-ERROR property={pid}: unexpected exception in the checking machinery", file=sys.stderr)
        return EXIT_HARNESS
