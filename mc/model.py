"""Reference model of the NASim attack dynamics — plain Python data, no nasim import, no NumPy.

Written from the property statements (C01-C07) and the documentation, as an *oracle*: the
explorer walks the implementation's state graph and asks this model what each implementation
transition should have done.  A model state is a tuple, in Layout row order, of
(compromised, reachable, discovered, access) per host.
"""
from .common import NONE, USER, ROOT
from .spec import all_addresses, host_value

REMOTE = ("service_scan", "os_scan", "exploit")
ON_HOST = ("subnet_scan", "process_scan", "privesc")
ANY = "any"

CLASS_TO_TYPE = {
    "ServiceScan": "service_scan", "OSScan": "os_scan", "SubnetScan": "subnet_scan",
    "ProcessScan": "process_scan", "Exploit": "exploit", "PrivilegeEscalation": "privesc",
    "NoOp": "noop",
}


class Result:
    __slots__ = ("state", "success", "value", "error", "draws", "gate", "host_ok", "host_fail",
                 "discovered", "newly_discovered", "chance_fail", "flag_fixed")

    def __init__(self):
        self.state = None
        self.success = False
        self.value = 0.0
        self.error = None         # None = success; 'connection' | 'permission' | 'undefined' | ANY (unspecified)
        self.draws = 0            # number of uniform draws the step consumes
        self.gate = None          # None if all network-level gates passed else name of failed gate
        self.host_ok = None       # host-level preconditions (None when not evaluated: scans)
        self.discovered = None
        self.newly_discovered = None
        self.chance_fail = False
        self.host_fail = False
        self.flag_fixed = False   # failure decided before chance: flags must not depend on the draw


class Model:
    def __init__(self, spec, addrs=None):
        self.spec = spec
        self.addrs = list(addrs) if addrs is not None else all_addresses(spec)
        self.row = {a: i for i, a in enumerate(self.addrs)}
        self.n = len(self.addrs)
        topo = spec["topology"]
        self.nsub = len(topo)
        self.connected = [[topo[i][j] == 1 for j in range(self.nsub)] for i in range(self.nsub)]
        self.public = [topo[s][0] == 1 for s in range(self.nsub)]
        self.fw = {tuple(k): set(v) for k, v in spec["firewall"].items()}
        self.hostfw = {a: {tuple(k): set(v) for k, v in spec["hosts"][a].get("firewall", {}).items()}
                       for a in self.addrs}
        self.value = {a: host_value(spec, a) for a in self.addrs}
        self.dvalue = {a: float(spec["hosts"][a].get("discovery_value", 0)) for a in self.addrs}
        self.hosts = spec["hosts"]
        self.sensitive = list(spec["sensitive_hosts"].keys())
        self.step_limit = spec.get("step_limit")
        self.subnet_rows = {}
        for a in self.addrs:
            self.subnet_rows.setdefault(a[0], []).append(self.row[a])
        # rows of hosts in subnets connected to subnet s (incl. s itself when self-connected)
        self.neigh_rows = {}
        for s in range(1, self.nsub):
            rows = []
            for s2 in range(1, self.nsub):
                if self.connected[s][s2]:
                    rows.extend(self.subnet_rows.get(s2, []))
            self.neigh_rows[s] = sorted(rows)

    # ---------------------------------------------------------------- actions
    def actions(self):
        """the documented flat action set, in documented order, as model action dicts"""
        out = []
        sc = self.spec["scan_costs"]
        for a in all_addresses(self.spec):
            out.append(self.scan_action("service_scan", a))
            out.append(self.scan_action("os_scan", a))
            out.append(self.scan_action("subnet_scan", a))
            out.append(self.scan_action("process_scan", a))
            for n in self.spec["exploits"]:
                out.append(self.exploit_action(n, a))
            for n in self.spec["privescs"]:
                out.append(self.privesc_action(n, a))
        return out

    def scan_action(self, typ, target):
        key = {"service_scan": "service", "os_scan": "os", "subnet_scan": "subnet", "process_scan": "process"}[typ]
        return {"type": typ, "name": typ, "target": tuple(target), "cost": self.spec["scan_costs"][key],
                "prob": 1.0, "req_access": USER}

    def exploit_action(self, name, target):
        e = self.spec["exploits"][name]
        return {"type": "exploit", "name": name, "target": tuple(target), "cost": e["cost"],
                "prob": float(e["prob"]), "service": e["service"], "os": e["os"],
                "access": int(e["access"]), "req_access": USER}

    def privesc_action(self, name, target):
        e = self.spec["privescs"][name]
        return {"type": "privesc", "name": name, "target": tuple(target), "cost": e["cost"],
                "prob": float(e["prob"]), "process": e["process"], "os": e["os"],
                "access": int(e["access"]), "req_access": USER}

    NOOP = {"type": "noop", "name": "noop", "target": (1, 0), "cost": 0, "prob": 1.0, "req_access": NONE}

    def action_for_impl(self, impl_action):
        """model action for an implementation Action object: identified by (class, name, target) only;
        every other field comes from the scenario text."""
        typ = CLASS_TO_TYPE[type(impl_action).__name__]
        tgt = (int(impl_action.target[0]), int(impl_action.target[1]))
        if typ == "noop":
            return self.NOOP
        if typ == "exploit":
            return self.exploit_action(impl_action.name, tgt)
        if typ == "privesc":
            return self.privesc_action(impl_action.name, tgt)
        return self.scan_action(typ, tgt)

    # ---------------------------------------------------------------- states
    def initial_state(self):
        st = []
        for a in self.addrs:
            pub = 1 if self.public[a[0]] else 0
            st.append((0, pub, pub, NONE))
        return tuple(st)

    def expected_reachable(self, ms):
        """C03: reachable iff subnet public or connected to a subnet containing a compromised host"""
        comp_subnets = {self.addrs[i][0] for i in range(self.n) if ms[i][0]}
        out = []
        for a in self.addrs:
            s = a[0]
            out.append(1 if (self.public[s] or any(self.connected[c][s] for c in comp_subnets)) else 0)
        return out

    def goal(self, ms):
        return all(ms[self.row[a]][3] >= ROOT for a in self.sensitive)

    # ---------------------------------------------------------------- firewall predicates
    def subnet_rule_allows(self, src, dst, service):
        if src == dst:
            return True
        if not self.connected[src][dst]:
            return False
        return service in self.fw.get((src, dst), ())

    def pivot_ok(self, ms, act):
        """network-level pivot precondition of remote actions into non-public subnets"""
        ts = act["target"][0]
        if self.public[ts]:
            return True
        for i, a in enumerate(self.addrs):
            comp, _, _, acc = ms[i]
            if not comp or acc < act["req_access"]:
                continue
            if act["type"] == "exploit":
                if self.subnet_rule_allows(a[0], ts, act["service"]):
                    return True
            else:
                if self.connected[a[0]][ts]:
                    return True
        return False

    def traffic_ok(self, ms, act):
        """exploit traffic: from the internet (public subnet) or from a compromised host, allowed by the
        subnet rule in that direction and not denied for that source by the target's host firewall"""
        t = act["target"]
        srv = act["service"]
        if self.public[t[0]] and srv in self.fw.get((0, t[0]), ()):
            return True
        deny = self.hostfw[t]
        for i, a in enumerate(self.addrs):
            if not ms[i][0]:
                continue
            if not self.subnet_rule_allows(a[0], t[0], srv):
                continue
            if srv in deny.get(a, ()):
                continue
            return True
        return False

    def host_preconditions(self, ms, act):
        """host-level preconditions of exploits / escalations (C01)"""
        t = act["target"]
        h = self.hosts[t]
        os_ok = act["os"] is None or h["os"] == act["os"]
        if act["type"] == "exploit":
            return (act["service"] in h["services"]) and os_ok
        if act["type"] == "privesc":
            comp, _, _, acc = ms[self.row[t]]
            proc_ok = act.get("process") is None or act["process"] in h["processes"]
            return bool(comp) and acc >= act["req_access"] and proc_ok and os_ok
        return None

    # ---------------------------------------------------------------- step
    def step(self, ms, act, draw):
        """draw: the value of the uniform draw the step would see (never equal to prob)."""
        r = Result()
        r.state = ms
        typ = act["type"]
        if typ == "noop":
            r.success = True
            return r
        t = act["target"]
        ti = self.row[t]
        comp, reach, disc, acc = ms[ti]
        if typ in ("exploit", "privesc"):
            r.host_ok = self.host_preconditions(ms, act)

        # ---- network-level gates (C02). r.flag_fixed: the failure is decided before chance is
        # consulted, so the reported flags must not depend on the draw (C07 "unaffected by chance").
        if not (disc and reach):
            r.gate, r.error, r.flag_fixed = "undiscovered_or_unreachable", "connection", True
            return r
        if typ in REMOTE and not self.pivot_ok(ms, act):
            r.gate, r.error, r.flag_fixed = "no_pivot", "permission", True
            return r
        if typ == "exploit" and not self.traffic_ok(ms, act):
            r.gate, r.error, r.flag_fixed = "firewall", "connection", True
            return r
        if typ in ON_HOST and not (comp and acc >= act["req_access"]):
            # subnet scan / process scan / escalation on a host the attacker does not hold.
            # (The statement does not say whether this is looked at before or after the draw, so
            # only success / state / value are specified, not the flag or the draw count.)
            r.gate, r.error, r.draws = "target_not_held", ANY, None
            return r
        if typ in ("exploit", "privesc") and not r.host_ok:
            # host configuration does not meet the action's preconditions: fails whatever the draw
            r.host_fail, r.error, r.draws = True, ANY, None
            return r

        # ---- chance (C07): all preconditions hold
        if typ == "exploit" and comp:
            r.draws = 0
        else:
            r.draws = 1
            if draw > act["prob"]:
                r.chance_fail = True
                r.error = "undefined"
                return r

        # ---- effects
        if typ in ("service_scan", "os_scan", "process_scan"):
            r.success = True
            return r
        if typ == "subnet_scan":
            rows = self.neigh_rows[t[0]]
            new = [i for i in rows if not ms[i][2]]
            st = list(ms)
            for i in new:
                c, re_, _, a_ = st[i]
                st[i] = (c, re_, 1, a_)
            r.state = tuple(st)
            r.success = True
            r.discovered = {self.addrs[i] for i in rows}
            r.newly_discovered = {self.addrs[i] for i in new}
            r.value = sum(self.dvalue[self.addrs[i]] for i in new)
            return r
        # exploit / privesc
        new_acc = max(acc, act["access"])
        st = list(ms)
        st[ti] = (1, reach, disc, new_acc)
        if typ == "exploit":
            for i in self.neigh_rows[t[0]]:
                c, re_, d_, a_ = st[i]
                if not re_:
                    st[i] = (c, 1, d_, a_)
        r.state = tuple(st)
        r.success = True
        if new_acc >= ROOT and acc < ROOT:
            r.value = self.value[t]
        return r

    # ---------------------------------------------------------------- closure (C16)
    def closure_plan(self):
        """Monotone closure from the initial state with every draw succeeding: repeatedly apply any
        exploit / escalation / subnet scan that changes the state. Returns (final state, plan)."""
        ms = self.initial_state()
        acts = [a for a in self.actions() if a["type"] in ("exploit", "privesc", "subnet_scan")]
        plan = []
        changed = True
        while changed:
            changed = False
            for a in acts:
                r = self.step(ms, a, 0.0 if a["prob"] > 0 else 2.0)
                if r.success and r.state != ms:
                    ms = r.state
                    plan.append(a)
                    changed = True
        return ms, plan
