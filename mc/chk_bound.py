"""C20 — the advertised score upper bound really bounds goal-reaching episodes.

Oracle 1 (episode clause): for a topology-centred scenario family inside the property's domain (every action
costs >= 1, non-sensitive hosts worth <= 1) the COMPLETE state graph of the real environment is built and
the exact optimum over ALL goal-reaching episodes is computed by dynamic programming over the (acyclic)
graph of state-changing transitions; it must not exceed env.get_score_upper_bound().
Oracle 2 (hop clause): (a) on the same graphs, min over goal states of #compromised hosts >=
env.get_minimum_hops(); (b) exhaustive enumeration of ALL symmetric self-connected topologies on <= 4
subnets (any public set) and all 1024 topologies on 5 subnets behind one public subnet, x every non-empty
set of sensitive subnets (one or two sensitive hosts per subnet), against a brute-force reference:
the cheapest connected set of subnets containing the internet and all sensitive subnets.
"""
import itertools
import multiprocessing as mp
import time

import numpy as np

from .common import HarnessError, import_nasim, ncpu, ROOT, USER
from .evidence import finish, rotate
from .explore import Ctx, explore
from .spec import spec_to_json, spec_from_json
from .sweep import seam

RULE = ("(1) scenario family = topologies {chain, star2, star3, Y, triangle, two-public, H} x sensitive placements x access "
        "paths x costs {1,2} x host values {0,1,-3} x discovery {0,1} x firewalls: complete state graph + exact optimum by DP "
        "vs advertised bound; (2) every topology on <=4 subnets and every 5-subnet topology behind one public subnet x every "
        "sensitive-subnet set vs brute-force minimum connecting set; non-trivial = scenario whose optimum is within 1 of the "
        "advertised bound / topology whose minimum connecting set is smaller than the shortest visiting walk")


# ------------------------------------------------------------------------------------------- oracle 2(b)
def ref_min_hosts(topo, sens_count):
    """brute force: cheapest set S of non-internet subnets such that S + internet is connected and S contains every
    sensitive subnet; cost of a subnet = number of sensitive hosts in it, or 1 if it has none."""
    n = len(topo) - 1
    need = {s for s, c in sens_count.items() if c > 0}
    best = None
    for mask in range(1, 1 << n):
        S = {i + 1 for i in range(n) if mask >> i & 1}
        if not need <= S:
            continue
        # connected with the internet (node 0)?
        seen = {0}
        stack = [0]
        nodes = S | {0}
        while stack:
            u = stack.pop()
            for v in nodes:
                if v not in seen and topo[u][v] == 1:
                    seen.add(v)
                    stack.append(v)
        if seen != nodes:
            continue
        cost = sum(max(1, sens_count.get(s, 0)) for s in S)
        if best is None or cost < best:
            best = cost
    return best


def advertised_hops(topo, sens_count):
    """the hop count an ENVIRONMENT built on this topology advertises (public API: NASimEnv.get_minimum_hops),
    for a minimal scenario with one host per subnet (two where a subnet holds two sensitive hosts)"""
    from nasim.envs import NASimEnv
    from .spec import to_scenario
    n = len(topo) - 1
    subnets = [max(1, sens_count.get(s, 0)) for s in range(1, n + 1)]
    spec = {"name": "c20", "subnets": subnets, "topology": [list(r) for r in topo], "os": ["os0"], "services": ["s0"],
            "processes": ["p0"],
            "exploits": {"e0": {"service": "s0", "os": None, "prob": 1.0, "cost": 1, "access": ROOT}}, "privescs": {},
            "scan_costs": {"service": 1, "os": 1, "subnet": 1, "process": 1}, "hosts": {}, "sensitive_hosts": {},
            "firewall": {(i, j): ["s0"] for i in range(n + 1) for j in range(n + 1) if i != j and topo[i][j] == 1},
            "step_limit": None, "address_space_bounds": None}
    for s_, size in enumerate(subnets, start=1):
        for h in range(size):
            spec["hosts"][(s_, h)] = {"os": "os0", "services": ["s0"], "processes": ["p0"], "discovery_value": 0.0, "firewall": {}}
            if h < sens_count.get(s_, 0):
                spec["sensitive_hosts"][(s_, h)] = 10
    env = NASimEnv(to_scenario(spec))
    return int(env.get_minimum_hops())


def shortest_walk(topo, need):
    """the pre-fix quantity: shortest walk from the internet visiting all sensitive subnets (for the non-trivial count)"""
    n = len(topo)
    INF = 10 ** 6
    d = [[0 if i == j else (1 if topo[i][j] == 1 else INF) for j in range(n)] for i in range(n)]
    for k in range(n):
        for i in range(n):
            for j in range(n):
                if d[i][k] + d[k][j] < d[i][j]:
                    d[i][j] = d[i][k] + d[k][j]
    best = INF
    for pm in itertools.permutations(sorted(need)):
        tot, cur = 0, 0
        for s in pm:
            tot += d[cur][s]
            cur = s
        best = min(best, tot)
    return best


def all_topologies(n, internet_only_to_1):
    """symmetric self-connected (n+1)x(n+1) matrices; subnet 1 always public"""
    N = n + 1
    inner = [(i, j) for i in range(1, N) for j in range(i + 1, N)]
    pub = [] if internet_only_to_1 else [(0, j) for j in range(2, N)]
    edges = inner + pub
    for mask in range(1 << len(edges)):
        t = [[1 if i == j else 0 for j in range(N)] for i in range(N)]
        t[0][1] = t[1][0] = 1
        for b, (i, j) in enumerate(edges):
            if mask >> b & 1:
                t[i][j] = t[j][i] = 1
        yield t


def all_trees(n):
    """all labelled trees on the n non-internet subnets (Pruefer sequences), subnet 1 public"""
    N = n + 1
    if n == 1:
        yield [[1, 1], [1, 1]]
        return
    for seq in itertools.product(range(1, n + 1), repeat=max(0, n - 2)):
        degree = [1] * (n + 1)
        for x in seq:
            degree[x] += 1
        edges = []
        seq_l = list(seq)
        deg = degree[:]
        for x in seq_l:
            for leaf in range(1, n + 1):
                if deg[leaf] == 1:
                    edges.append((leaf, x))
                    deg[leaf] -= 1
                    deg[x] -= 1
                    break
        rest = [v for v in range(1, n + 1) if deg[v] == 1]
        edges.append((rest[0], rest[1]))
        t = [[1 if i == j else 0 for j in range(N)] for i in range(N)]
        t[0][1] = t[1][0] = 1
        for a, b in edges:
            t[a][b] = t[b][a] = 1
        yield t


def structured_topologies():
    """topologies beyond the exhaustive bound, built from patterns with many sensitive subnets / several public relays:
    stars and brooms with up to 10 leaves; r public relays with one subnet behind each and hubs joining subsets of
    those; double stars. Yields (topology, list of candidate sensitive-subnet sets)."""
    def base(n, public):
        N = n + 1
        t = [[1 if i == j else 0 for j in range(N)] for i in range(N)]
        for p in public:
            t[0][p] = t[p][0] = 1
        return t

    def link(t, a, b):
        t[a][b] = t[b][a] = 1

    for k in range(2, 11):                               # star: DMZ + k leaves
        t = base(k + 1, [1])
        for leaf in range(2, k + 2):
            link(t, 1, leaf)
        leaves = list(range(2, k + 2))
        yield t, [tuple(leaves), tuple(leaves[:-1]), tuple(leaves[1:]), tuple(leaves[::2])]
    for k in range(2, 9):                                # broom: chain 1-2 then k leaves on 2
        t = base(k + 2, [1])
        link(t, 1, 2)
        for leaf in range(3, k + 3):
            link(t, 2, leaf)
        leaves = list(range(3, k + 3))
        yield t, [tuple(leaves), tuple(leaves[:-1]), tuple([2] + leaves[:2])]
    for r in (2, 3, 4):                                  # r public relays, a subnet behind each, hubs over subsets
        relays = list(range(1, r + 1))
        behind = list(range(r + 1, 2 * r + 1))
        for size in range(2, r + 1):
            for members in itertools.combinations(behind, size):
                for two_hubs in (False, True):
                    n = 2 * r + (2 if two_hubs else 1)
                    t = base(n, relays)
                    for a, b in zip(relays, behind):
                        link(t, a, b)
                    hub = 2 * r + 1
                    for m in members:
                        link(t, hub, m)
                    if two_hubs:
                        link(t, hub, hub + 1)
                        link(t, hub + 1, behind[0])
                    sets = [tuple(behind), tuple(members), tuple(behind) + (hub,), tuple(members) + (hub,)]
                    yield t, sets


def _struct_job(_):
    import_nasim()
    from nasim.envs.utils import get_minimal_hops_to_goal
    out = {"cases": 0, "nontrivial": 0, "violations": [], "unreachable": 0}
    for t, sets in structured_topologies():
        for subs in sets:
            for double in (False, True):
                sens_count = {s: (2 if (double and s == subs[0]) else 1) for s in subs}
                ref = ref_min_hosts(t, sens_count)
                if ref is None:
                    out["unreachable"] += 1
                    continue
                addrs = []
                for s_, c in sens_count.items():
                    addrs += [(s_, h) for h in range(c)]
                hops = advertised_hops(t, sens_count)
                out["cases"] += 1
                if len(subs) <= 7 and shortest_walk(t, subs) > ref_min_hosts(t, {s_: 1 for s_ in subs}):
                    out["nontrivial"] += 1
                if hops > ref and len(out["violations"]) < 3:
                    out["violations"].append({
                        "property": "C20", "kind": "advertised_minimum_hops_exceed_hosts_that_must_be_compromised",
                        "engine": "topology_enumeration", "topology": t, "sensitive_addresses": addrs,
                        "detail": {"advertised_hops": hops, "minimum_hosts": ref, "family": "structured"}})
    return out


def _topo_job(args):
    n, only1, part, parts = args
    import_nasim()
    from nasim.envs.utils import get_minimal_hops_to_goal
    out = {"cases": 0, "nontrivial": 0, "violations": [], "unreachable": 0}
    gen = all_trees(n) if only1 == "trees" else all_topologies(n, only1)
    for idx, t in enumerate(gen):
        if idx % parts != part:
            continue
        for r in range(1, n + 1):
            for subs in itertools.combinations(range(1, n + 1), r):
                for double in (False, True):
                    sens_count = {s: (2 if (double and s == subs[0]) else 1) for s in subs}
                    ref = ref_min_hosts(t, sens_count)
                    if ref is None:
                        out["unreachable"] += 1
                        continue
                    addrs = []
                    for s, c in sens_count.items():
                        addrs += [(s, h) for h in range(c)]
                    hops = advertised_hops(t, sens_count)
                    out["cases"] += 1
                    if shortest_walk(t, subs) > ref_min_hosts(t, {s: 1 for s in subs}):
                        out["nontrivial"] += 1
                    if hops > ref:
                        if len(out["violations"]) < 3:
                            out["violations"].append({
                                "property": "C20", "kind": "advertised_minimum_hops_exceed_hosts_that_must_be_compromised",
                                "engine": "topology_enumeration", "topology": t, "sensitive_addresses": addrs,
                                "detail": {"advertised_hops": hops, "minimum_hosts": ref}})
    return out


# ------------------------------------------------------------------------------------------- oracle 1 family
TOPOS = {
    "chain3": (3, [(1, 2), (2, 3)], [1]),
    "star2": (3, [(1, 2), (1, 3)], [1]),
    "star3": (4, [(1, 2), (1, 3), (1, 4)], [1]),
    "Y": (4, [(1, 2), (2, 3), (2, 4)], [1]),
    "triangle": (3, [(1, 2), (1, 3), (2, 3)], [1]),
    "two_public": (3, [(1, 3), (2, 3)], [1, 2]),
    "H": (5, [(1, 2), (1, 3), (3, 4), (3, 5)], [1]),
}


def make_spec(tname, sens_subs, access_mode, cost, value_kind, disc, fw_kind, big_dmz, name="c20"):
    n, links, public = TOPOS[tname]
    N = n + 1
    topo = [[1 if i == j else 0 for j in range(N)] for i in range(N)]
    for p in public:
        topo[0][p] = topo[p][0] = 1
    for a, b in links:
        topo[a][b] = topo[b][a] = 1
    subnets = [2 if (big_dmz and s == 1) else 1 for s in range(1, N)]
    spec = {"name": name, "subnets": subnets, "topology": topo, "os": ["os0"], "services": ["s0"], "processes": ["p0"]}
    if access_mode == "root_exploit":
        spec["exploits"] = {"e0": {"service": "s0", "os": None, "prob": 1.0, "cost": cost, "access": ROOT}}
        spec["privescs"] = {}
    elif access_mode == "user_and_root_exploits":
        # two exploits for the same (service, OS) pair with different access levels (both in the flat space)
        spec["exploits"] = {"e_user": {"service": "s0", "os": None, "prob": 1.0, "cost": cost, "access": USER},
                            "e_root": {"service": "s0", "os": None, "prob": 1.0, "cost": cost + 1, "access": ROOT}}
        spec["privescs"] = {"pe0": {"process": "p0", "os": None, "prob": 1.0, "cost": cost + 2, "access": ROOT}}
    elif access_mode == "dearer_exploit_listed_first":
        spec["exploits"] = {"e_dear": {"service": "s0", "os": None, "prob": 1.0, "cost": 3 * cost, "access": ROOT},
                            "e_cheap": {"service": "s0", "os": None, "prob": 1.0, "cost": cost, "access": ROOT}}
        spec["privescs"] = {}
    else:
        spec["exploits"] = {"e0": {"service": "s0", "os": None, "prob": 1.0, "cost": cost, "access": USER}}
        spec["privescs"] = {"pe0": {"process": "p0", "os": None, "prob": 1.0, "cost": cost, "access": ROOT}}
    spec["scan_costs"] = {"service": cost, "os": cost, "subnet": cost, "process": cost}
    vals = {"zero": [0, 0, 0], "one": [1, 1, 1], "mixed": [1, -3, 0]}[value_kind]
    spec["hosts"] = {}
    k = 0
    for s, size in enumerate(subnets, start=1):
        for h in range(size):
            spec["hosts"][(s, h)] = {"os": "os0", "services": ["s0"], "processes": ["p0"], "value": vals[k % 3],
                                     "discovery_value": float(disc), "firewall": {}}
            k += 1
    spec["sensitive_hosts"] = {}
    for s in sens_subs:
        spec["sensitive_hosts"][(s, 0)] = 10
        spec["hosts"][(s, 0)].pop("value", None)
    fw = {}
    for i in range(N):
        for j in range(N):
            if i != j and topo[i][j] == 1:
                fw[(i, j)] = ["s0"]
    if fw_kind == "one_way":
        for (i, j) in list(fw):
            if 0 < j < i:
                fw[(i, j)] = []
    spec["firewall"] = fw
    spec["step_limit"] = None
    spec["address_space_bounds"] = None
    return spec


def family(tier):
    out = []
    for tname, (n, links, public) in TOPOS.items():
        leaves = list(range(2, n + 1))
        placements = []
        for r in (1, 2, 3):
            placements += list(itertools.combinations(leaves, r))
        placements += [(1,), (1,) + tuple(leaves[:1])]
        if tier == "quick":
            placements = [p for p in placements if len(p) >= 2 or tname in ("chain3", "two_public")][:6]
        for sens in placements:
            for access_mode in ("root_exploit", "user_then_escalate", "user_and_root_exploits", "dearer_exploit_listed_first"):
                for cost in (1, 2):
                    for value_kind in ("zero", "one", "mixed"):
                        for disc in (0, 1):
                            for fw_kind in ("allow_all", "one_way"):
                                for big_dmz in ((False,) if (tier == "quick" or tname == "H") else (False, True)):
                                    if tier == "quick":
                                        # pairwise-ish thinning: keep combinations that differ in >= 1 key axis from a fixed base
                                        h = (cost * 7 + len(value_kind) * 3 + disc * 5 + (fw_kind == "one_way") * 11 + (access_mode[0] == "u")) % 4
                                        if h not in (0,):
                                            continue
                                    out.append(dict(tname=tname, sens_subs=list(sens), access_mode=access_mode, cost=cost,
                                                    value_kind=value_kind, disc=disc, fw_kind=fw_kind, big_dmz=big_dmz))
    return out


def optimum(graph, root, goal_keys):
    """exact max total reward over all paths root -> first goal state (DP over the DAG of state-changing edges)"""
    import sys
    sys.setrecursionlimit(100000)
    memo = {}
    on_stack = set()

    class _Cycle(Exception):
        pass

    def best(k):
        if k in memo:
            return memo[k]
        if k in on_stack:
            raise _Cycle()
        on_stack.add(k)
        b = None
        for a_idx, side, k2, r, done, succ in graph.get(k, ()):
            if k2 == k:
                continue
            if k2 in goal_keys:
                cand = r
            else:
                sub = best(k2)
                if sub is None:
                    continue
                cand = r + sub
            if b is None or cand > b:
                b = cand
        on_stack.discard(k)
        memo[k] = b
        return b

    try:
        return best(root)
    except _Cycle:
        # the graph of state-changing transitions is cyclic (status is not monotone - a C04 matter): the best
        # goal-reaching episode of at most 4|S| steps by value iteration (a profitable cycle grows without bound)
        nodes = list(graph.keys())
        V = {k: None for k in nodes}
        for _ in range(min(400, 4 * len(nodes) + 8)):
            newV = {}
            for k in nodes:
                b = None
                for a_idx, side, k2, r, done, succ in graph.get(k, ()):
                    if k2 == k:
                        continue
                    cand = r if k2 in goal_keys else (None if V.get(k2) is None else r + V[k2])
                    if cand is not None and (b is None or cand > b):
                        b = cand
                newV[k] = b
            if newV == V:
                break
            V = newV
        return V.get(root)


def _scen_job(choice):
    import_nasim()
    from nasim.envs import NASimEnv
    spec = make_spec(**choice)
    ctx = Ctx(spec, "dict", seam=seam())
    res = explore(ctx, [], record_graph=True)
    keys = list(res["seen"].keys())
    model = ctx.model
    goal_keys = {k for k, s in zip(keys, res["order"]) if model.goal(ctx.decode(k, s.tensor))}
    out = {"states": res["states"], "transitions": res["transitions"], "violations": [], "nontrivial": 0,
           "goal_states": len(goal_keys), "choice": choice}
    # a fresh environment object advertises the bound (same scenario NAME for every family member on purpose)
    env = NASimEnv(ctx.scenario)
    ub = float(env.get_score_upper_bound())
    hops = int(env.get_minimum_hops())
    if not goal_keys:
        return out
    # the bound may also be asked for the FIRST time late: on another environment object, after the whole reference plan
    # (scans included) has been played. Whatever it advertises then has to bound goal-reaching episodes as well.
    try:
        from .seams import draw_values as _dv
        env_late = NASimEnv(ctx.scenario)
        env_late.reset()
        _ms, _plan = model.closure_plan()
        _idx = {}
        for i, m in enumerate(ctx.mactions):
            if m is not None:
                _idx[(m["type"], m["name"], tuple(m["target"]))] = i
        for act in _plan:
            i = _idx.get((act["type"], act["name"], tuple(act["target"])))
            if i is None:
                break
            ctx.seam.arm(_dv(act["prob"])["below"])
            env_late.step(i)
        ub_late = float(env_late.get_score_upper_bound())
        env_late.reset()
        ub_late2 = float(env_late.get_score_upper_bound())
    except Exception:
        ub_late = ub_late2 = ub
    ub_min = min(ub, ub_late, ub_late2)
    # every non-state-changing transition must lose reward in this domain (so loops are never on an optimal path)
    for k, edges in res["graph"].items():
        for a_idx, side, k2, r, done, succ in edges:
            if k2 == k and r > 0:
                raise HarnessError("self-loop with positive reward inside the C20 domain")
    if keys[0] in goal_keys:
        best = 0.0
    else:
        best = optimum(res["graph"], keys[0], goal_keys)
    if best is None:
        return out
    if best >= ub - 1 - 1e-9:
        out["nontrivial"] += 1
    if best > ub_min + 1e-9:
        out["violations"].append({"property": "C20", "kind": "optimal_goal_reaching_episode_beats_advertised_score_upper_bound",
                                  "engine": "state_graph_dp", "choice": choice, "scenario": spec_to_json(spec),
                                  "detail": {"optimal_episode_reward": best, "advertised_upper_bound": ub,
                                             "advertised_after_an_episode_on_another_object": ub_late,
                                             "advertised_after_that_and_reset": ub_late2,
                                             "advertised_minimum_hops": hops}})
    # a goal-reaching episode may also be the SECOND episode of an environment object: play the model's plan
    # through step(), reset(), and take the state the environment then starts from as the root
    from .seams import draw_values
    env2 = ctx.env
    env2.reset()
    ms_c, plan = model.closure_plan()
    idx = {}
    for i, m in enumerate(ctx.mactions):
        if m is not None:
            idx[(m["type"], m["name"], tuple(m["target"]))] = i
    plan_idx = []
    for act in plan:
        i = idx.get((act["type"], act["name"], tuple(act["target"])))
        if i is None:
            break
        plan_idx.append((i, act["prob"]))
    # histories before the episode that is measured: the whole plan; an episode abandoned half way; the same followed
    # by the public helper generate_initial_state(); a double reset
    half = plan_idx[: max(1, len(plan_idx) // 2)]
    histories = [("plan,reset", plan_idx, ()), ("half,reset", half, ()), ("half,generate_initial_state,reset", half, ("I",)),
                 ("half,reset,reset", half, ("R",)), ("one_step,generate_initial_state,reset", plan_idx[:1], ("I",))]
    out["second_episode_roots"] = 0
    for hname, steps_, extra in histories:
        env2.reset()
        for i, prob in steps_:
            ctx.seam.arm(draw_values(prob)["below"])
            env2.step(ctx.actions[i])
        for x in extra:
            if x == "I":
                env2.generate_initial_state()
            else:
                env2.reset()
        env2.reset()
        root2 = env2.current_state
        out["second_episode_roots"] += 1
        if root2.tensor.tobytes() == keys[0]:
            continue
        res2 = explore(ctx, [], record_graph=True, root_state=root2.copy())
        keys2 = list(res2["seen"].keys())
        goal2 = {k for k, s in zip(keys2, res2["order"]) if model.goal(ctx.decode(k, s.tensor))}
        best2 = 0.0 if keys2[0] in goal2 else (optimum(res2["graph"], keys2[0], goal2) if goal2 else None)
        if best2 is not None and best2 > ub + 1e-9:
            out["violations"].append({"property": "C20", "kind": "goal_reaching_episode_after_reset_beats_advertised_score_upper_bound",
                                      "engine": "state_graph_dp", "choice": choice, "scenario": spec_to_json(spec),
                                      "detail": {"optimal_reward_of_an_episode_started_after_reset": best2,
                                                 "advertised_upper_bound": ub, "history_before_the_episode": hname,
                                                 "note": "the environment's state after this history and reset() differs from the initial state"}})
            break
    if choice["fw_kind"] == "allow_all":
        min_comp = min(sum(1 for st in ctx.decode(k, res["order"][res["seen"][k]].tensor) if st[0]) for k in goal_keys)
        if hops > min_comp:
            out["violations"].append({"property": "C20", "kind": "advertised_minimum_hops_exceed_hosts_that_must_be_compromised",
                                      "engine": "state_graph", "choice": choice, "scenario": spec_to_json(spec),
                                      "detail": {"advertised_hops": hops, "fewest_compromised_hosts_in_a_goal_state": min_comp}})
    return out


def run(pid, tier):
    t0 = time.time()
    fam = family(tier)
    # order so that consecutive scenarios (same NAME) have different hop counts
    fam.sort(key=lambda c: (len(c["sens_subs"]) * 7 + len(c["tname"])) % 5)
    n = ncpu()
    with mp.get_context("fork").Pool(processes=n) as pool:
        res1 = pool.map(_scen_job, fam, chunksize=max(1, len(fam) // (n * 6)))
        tj = [(nn, False, p, 4) for nn in (2, 3, 4) for p in range(4)] + [(5, True, p, 16) for p in range(16)]
        tj += [(6, "trees", p, 32) for p in range(32)]          # all 1296 labelled trees on 6 subnets
        if tier == "thorough":
            tj += [(5, False, p, 64) for p in range(64)]
            tj += [(7, "trees", p, 128) for p in range(128)]   # all 16807 labelled trees on 7 subnets
        res2 = pool.map(_topo_job, tj, chunksize=1)
        res2 += pool.map(_struct_job, [0])
    violations = [v for r in res1 for v in r["violations"]] + [v for r in res2 for v in r["violations"]]
    # report each kind once per engine with a replay; count all
    states = sum(r["states"] for r in res1)
    trans = sum(r["transitions"] for r in res1)
    cases = sum(r["cases"] for r in res2)
    if not any(r["goal_states"] for r in res1):
        raise HarnessError("vacuous C20 family: no goal state in any graph")
    cov = {
        "states": states, "transitions": trans, "traces_validated_against_impl": trans,
        "evaluations": len(fam) + cases,
        "distinct_nontrivial": sum(r["nontrivial"] for r in res1) + sum(r["nontrivial"] for r in res2),
        "rule": RULE,
        "samples": rotate([r["choice"] for r in res1], 3) + [{"topology_cases": cases}],
        "exhaustive": True, "scenarios_with_complete_graph": len(fam),
        "scenarios_with_goal_states": sum(1 for r in res1 if r["goal_states"]),
        "topology_x_sensitive_set_cases": cases, "unreachable_sensitive_sets_skipped": sum(r["unreachable"] for r in res2),
        "bound": "family scenarios: complete graphs (<= 6 hosts); topologies: all on <=4 subnets, all 5-subnet ones behind one public subnet, all labelled trees on 6 subnets"
                 + (" + all 5-subnet ones with any public set + all labelled trees on 7 subnets" if tier == "thorough" else ""),
    }
    assume = ["domain of the property: action costs >= 1, non-sensitive host values <= 1; discovery values in {0,1}",
              "episodes end at the first goal state; with costs >= 1 non-state-changing steps lose reward, so they are never on an optimal path (checked)"]
    return finish(pid, tier, cov, violations[:30], assume, t0)


def replay(pid, rec):
    import_nasim()
    if rec.get("engine") == "topology_enumeration":
        from nasim.envs.utils import get_minimal_hops_to_goal
        addrs = [tuple(a) for a in rec["sensitive_addresses"]]
        cnt = {}
        for s, h in addrs:
            cnt[s] = cnt.get(s, 0) + 1
        hops = advertised_hops(rec["topology"], cnt)
        ref = ref_min_hosts(rec["topology"], cnt)
        return [{"kind": rec["kind"], "detail": {"advertised_hops": hops, "minimum_hosts": ref}}] if hops > ref else []
    r = _scen_job(rec["choice"])
    return r["violations"]
