"""Transition / state oracles for the dynamics properties C01-C08 and C13 (purity part).

Each oracle sees every explored transition (implementation result + reference-model result) and
demands exactly what its property states — implications where the statement is an "only if",
equalities where it is an "exactly".
"""
import math

import numpy as np

from .common import ROOT, USER
from .explore import Oracle
from .model import ANY

EXPLOITISH = ("exploit", "privesc")


def _flags(info):
    return (bool(info["success"]), bool(info["connection_error"]), bool(info["permission_error"]),
            bool(info["undefined_error"]))


def _close(a, b):
    return math.isclose(float(a), float(b), rel_tol=1e-6, abs_tol=1e-6)


# =============================================================================================== C01
class C01(Oracle):
    pid = "C01"

    def on_transition(self, ctx, tr):
        ms, ms2, mact, exp = tr.ms, tr.ms2, tr.mact, tr.exp
        typ = mact["type"]
        changed = [i for i in range(len(ms)) if (ms[i][0], ms[i][3]) != (ms2[i][0], ms2[i][3])]
        ti = ctx.model.row[mact["target"]] if typ != "noop" else None
        if changed:
            ctx.nontrivial["C01"] += 1
            if typ not in EXPLOITISH:
                ctx.report("C01", "scan_or_noop_changed_access", tr,
                           detail={"changed_hosts": [str(ctx.model.addrs[i]) for i in changed]})
            elif any(i != ti for i in changed):
                ctx.report("C01", "non_target_changed", tr,
                           detail={"changed_hosts": [str(ctx.model.addrs[i]) for i in changed]})
            elif not exp.host_ok:
                ctx.report("C01", "access_changed_without_host_preconditions", tr,
                           detail={"before": ms[ti], "after": ms2[ti]})
        if typ in EXPLOITISH:
            if exp.success:
                ctx.nontrivial["C01"] += 1
                want_acc = max(ms[ti][3], mact["access"])
                if not tr.info["success"]:
                    ctx.report("C01", "applicable_action_did_not_succeed", tr,
                               detail={"flags": _flags(tr.info)})
                elif not (ms2[ti][0] == 1 and ms2[ti][3] == want_acc):
                    ctx.report("C01", "wrong_access_after_success", tr,
                               detail={"before": ms[ti], "after": ms2[ti], "expected_access": want_acc})
            elif exp.host_ok is False and exp.gate is None and not exp.chance_fail:
                ctx.stats[("C01", "host_precondition_fail_cases")] += 1


# =============================================================================================== C02
class C02(Oracle):
    pid = "C02"

    def on_transition(self, ctx, tr):
        exp, mact = tr.exp, tr.mact
        if mact["type"] == "noop":
            return
        succ = bool(tr.info["success"])
        if exp.gate is not None:
            ctx.nontrivial["C02"] += 1
            ctx.stats[("C02", "forbidden:" + exp.gate + ":" + mact["type"])] += 1
            if succ:
                ctx.report("C02", "succeeded_although_forbidden:" + exp.gate, tr,
                           detail={"gate": exp.gate})
            elif exp.gate == "undiscovered_or_unreachable" and tr.key2 != tr.key:
                ctx.report("C02", "undiscovered_or_unreachable_target_changed_state", tr)


# =============================================================================================== C03
class C03(Oracle):
    pid = "C03"

    def on_scenario(self, ctx):
        ctx.env.reset()
        self._root_key = ctx.env.current_state.tensor.tobytes()     # the state reset() produces, whatever the
                                                                    # order in which states are expanded
    def on_state(self, ctx, s, key, ms):
        m = ctx.model
        if key == self._root_key:
            for i, a in enumerate(m.addrs):
                pub = 1 if m.public[a[0]] else 0
                if ms[i][2] != pub:
                    ctx.report("C03", "initial_discovery_not_public_only", key=key,
                               detail={"host": str(a), "discovered": ms[i][2], "public": pub})
        want = m.expected_reachable(ms)
        for i, a in enumerate(m.addrs):
            comp, reach, disc, acc = ms[i]
            if reach != want[i]:
                ctx.report("C03", "reachability_does_not_follow_compromise", key=key,
                           detail={"host": str(a), "reachable": reach, "expected": want[i]})
                break
            if (comp and not disc) or (disc and not reach):
                ctx.report("C03", "compromised_discovered_reachable_chain_broken", key=key,
                           detail={"host": str(a), "status": ms[i]})
                break

    def on_transition(self, ctx, tr):
        ms, ms2, mact, exp = tr.ms, tr.ms2, tr.mact, tr.exp
        m = ctx.model
        d1 = {i for i in range(len(ms)) if ms[i][2]}
        d2 = {i for i in range(len(ms2)) if ms2[i][2]}
        if d2 != d1:
            ctx.nontrivial["C03"] += 1
            ti = m.row[mact["target"]]
            ok_src = (mact["type"] == "subnet_scan" and bool(tr.info["success"]) and ms[ti][0] == 1)
            if not ok_src:
                ctx.report("C03", "discovery_without_successful_subnet_scan_on_compromised_host", tr,
                           detail={"newly": [str(m.addrs[i]) for i in sorted(d2 ^ d1)]})
                return
        if mact["type"] == "subnet_scan" and bool(tr.info["success"]) and ms[m.row[mact["target"]]][0] == 1:
            want = d1 | set(m.neigh_rows[mact["target"][0]])
            if d2 != want:
                ctx.report("C03", "subnet_scan_discovered_wrong_set", tr,
                           detail={"discovered": [str(m.addrs[i]) for i in sorted(d2)],
                                   "expected": [str(m.addrs[i]) for i in sorted(want)]})


# =============================================================================================== C04
class C04(Oracle):
    """transition part: monotone status, immutable configuration (reset part: envobj.py)"""
    pid = "C04"

    def on_scenario(self, ctx):
        lay = ctx.layout
        self.cols = np.array(lay.config_cols, dtype=np.intp)
        ctx.env.reset()
        self.ref = ctx.env.current_state.tensor[:, self.cols].tobytes()

    def on_transition(self, ctx, tr):
        ms, ms2 = tr.ms, tr.ms2
        for i in range(len(ms)):
            a, b = ms[i], ms2[i]
            if b[0] < a[0] or b[1] < a[1] or b[2] < a[2] or b[3] < a[3]:
                ctx.report("C04", "status_decreased", tr,
                           detail={"host": str(ctx.model.addrs[i]), "before": a, "after": b})
                break
        if tr.key2 != tr.key:
            ctx.nontrivial["C04"] += 1
            if tr.s2.tensor[:, self.cols].tobytes() != self.ref:
                diff = np.argwhere(tr.s2.tensor != tr.s.tensor)
                bad = [(int(r), int(c)) for r, c in diff if int(c) in set(self.cols.tolist())]
                ctx.report("C04", "configuration_cells_changed", tr, detail={"cells(row,col)": bad[:8]})
            elif not ctx.layout.status_is_clean(tr.s2.tensor):
                ctx.report("C04", "status_cell_outside_domain", tr)


# =============================================================================================== C05
class C05(Oracle):
    pid = "C05"

    def on_scenario(self, ctx):
        self.succ = {}          # key -> set of successor keys (state-changing edges)
        self.pay_root = {}      # host row -> list of (key, key2): edges on which the host's value is due
        self.pay_disc = {}      # host row -> list of (key, key2): edges on which its discovery value is due

    def on_transition(self, ctx, tr):
        m, ms, ms2, mact = ctx.model, tr.ms, tr.ms2, tr.mact
        cost = mact["cost"]
        gained = 0.0
        if bool(tr.info["success"]):
            for i, a in enumerate(m.addrs):
                if ms2[i][3] >= ROOT and ms[i][3] < ROOT:
                    gained += m.value[a]
                    self.pay_root.setdefault(i, []).append((tr.key, tr.key2))
                if ms2[i][2] and not ms[i][2]:
                    gained += m.dvalue[a]
                    self.pay_disc.setdefault(i, []).append((tr.key, tr.key2))
        want = gained - cost
        if gained != 0.0 or not tr.info["success"]:
            ctx.nontrivial["C05"] += 1
        if not _close(tr.reward, want):
            ctx.report("C05", "reward_is_not_value_gained_minus_cost", tr,
                       detail={"reward": float(tr.reward), "expected": want, "value_gained": gained,
                               "cost": cost, "success": bool(tr.info["success"])})
        if tr.key2 != tr.key:
            self.succ.setdefault(tr.key, set()).add(tr.key2)

    def on_done(self, ctx, seen, order):
        """Path-level 'paid at most once', over ALL paths of the state graph (cycles allowed): the
        transition oracle above fixes WHEN a value is paid (root first obtained / host first
        discovered on that edge), so a value is paid twice on some path iff two such edges for the same
        host lie on one path, i.e. the tail of one is reachable from the head of another."""
        m = ctx.model
        for what, table, val in (("host value", self.pay_root, m.value), ("discovery value", self.pay_disc, m.dvalue)):
            for i, edges in table.items():
                a = m.addrs[i]
                if val[a] == 0:
                    continue
                ctx.stats[("C05", "paid_once_graph_checks")] += 1
                tails = {}
                for k, k2 in edges:
                    tails.setdefault(k, k2)
                # forward reachability from all heads
                stack = list({k2 for _, k2 in edges})
                reach = set(stack)
                while stack:
                    k = stack.pop()
                    for k2 in self.succ.get(k, ()):
                        if k2 not in reach:
                            reach.add(k2)
                            stack.append(k2)
                again = [k for k in tails if k in reach]
                if again:
                    ctx.report("C05", "value_paid_more_than_once_on_a_path", key=again[0],
                               detail={"host": str(a), "what": what, "value": val[a],
                                       "note": "the history reaches a state in which the value has already been paid "
                                               "once and from which it is paid again"})
                    return


# =============================================================================================== C06
class C06(Oracle):
    """goal flag part (step-limit part: envobj.py)"""
    pid = "C06"

    def on_state(self, ctx, s, key, ms):
        want = ctx.model.goal(ms)
        got = bool(ctx.env.goal_reached(s))
        if got != want:
            ctx.report("C06", "goal_query_wrong_for_state", key=key,
                       detail={"goal_reached": got, "root_on_all_sensitive": want})
        prev = ctx.env.current_state
        ctx.env.current_state = s
        try:
            got2 = bool(ctx.env.goal_reached())
        finally:
            ctx.env.current_state = prev
        if got2 != want:
            ctx.report("C06", "goal_query_wrong_for_current_state", key=key,
                       detail={"goal_reached": got2, "root_on_all_sensitive": want})

    def on_transition(self, ctx, tr):
        want = ctx.model.goal(tr.ms2)
        if want:
            ctx.nontrivial["C06"] += 1
        if bool(tr.done) != want:
            ctx.report("C06", "terminal_flag_wrong", tr,
                       detail={"done": bool(tr.done), "root_on_all_sensitive_after_step": want,
                               "sensitive_status": {str(a): tr.ms2[ctx.model.row[a]] for a in ctx.model.sensitive}})


# =============================================================================================== C07
class C07(Oracle):
    pid = "C07"

    def on_transition(self, ctx, tr):
        exp, mact = tr.exp, tr.mact
        succ, conn, perm, undef = _flags(tr.info)
        nerr = int(conn) + int(perm) + int(undef)
        if (succ and nerr) or nerr > 1:
            ctx.report("C07", "inconsistent_result_flags", tr, detail={"flags": (succ, conn, perm, undef)})
        if tr.ndraws > 1:
            ctx.report("C07", "more_than_one_draw_in_one_step", tr, detail={"draws": tr.ndraws})
        if mact["type"] == "noop":
            return
        if exp.success:
            if exp.draws == 1 and 0.0 < mact["prob"] < 1.0:
                ctx.nontrivial["C07"] += 1
            if not succ:
                kind = "failed_although_preconditions_hold_and_draw_succeeds"
                if exp.draws == 0:
                    kind = "re_exploit_of_compromised_host_failed"
                elif mact["prob"] >= 1.0:
                    kind = "probability_1_action_failed"
                ctx.report("C07", kind, tr, detail={"flags": (succ, conn, perm, undef), "prob": mact["prob"]})
        elif exp.chance_fail:
            ctx.nontrivial["C07"] += 1
            if succ:
                kind = "probability_0_action_succeeded" if mact["prob"] <= 0.0 else \
                    "succeeded_although_draw_above_probability"
                ctx.report("C07", kind, tr, detail={"prob": mact["prob"], "draw": tr.draw})
            else:
                if tr.key2 != tr.key:
                    ctx.report("C07", "chance_failure_changed_state", tr)
                if not _close(float(tr.reward), -float(mact["cost"])):
                    ctx.report("C07", "chance_failure_gained_value", tr,
                               detail={"reward": float(tr.reward), "cost": mact["cost"]})
                if not undef or conn or perm:
                    ctx.report("C07", "chance_failure_not_reported_as_undefined_error", tr,
                               detail={"flags": (succ, conn, perm, undef)})

    def on_pair(self, ctx, below, above):
        exp = below.exp
        if exp.gate is None and not exp.host_fail:
            return
        # a precondition does not hold: outcome must not depend on the draw
        ctx.nontrivial["C07"] += 1
        fb, fa = _flags(below.info), _flags(above.info)
        if fb[0] != fa[0] or below.key2 != above.key2 or not _close(below.reward, above.reward):
            ctx.report("C07", "outcome_of_action_with_failed_precondition_depends_on_draw", above,
                       detail={"below": {"flags": fb, "reward": float(below.reward)},
                               "above": {"flags": fa, "reward": float(above.reward)},
                               "failed": exp.gate or "host_preconditions"})
        elif exp.flag_fixed and fb != fa:
            ctx.report("C07", "reported_flags_of_blocked_action_depend_on_draw", above,
                       detail={"below": fb, "above": fa, "failed": exp.gate})


# =============================================================================================== C08
REQ = {
    "service_scan": {"services"},
    "os_scan": {"os"},
    "process_scan": {"processes", "access"},
    "exploit": {"compromised", "access", "os", "services"},
    "privesc": {"compromised", "access"},
    "subnet_scan": set(),
}
EXTRA = {
    "exploit": {"value"},
    "privesc": {"processes", "os", "value"},
    "subnet_scan": {"compromised"},
}
ALWAYS = {"address", "reachable", "discovered"}


class C08(Oracle):
    pid = "C08"

    def on_scenario(self, ctx):
        lay = ctx.layout
        self.n = lay.nhosts
        self.gcols = {g: np.array(c, dtype=np.intp) for g, c in lay.groups.items()}
        self.col_group = {}
        for g, cols in lay.groups.items():
            for c in cols:
                self.col_group[c] = g
        # initial observation, both modes
        for env, fo in ((ctx.env, False), (ctx.env_fo, True)):
            o, _ = env.reset()
            st = env.current_state.tensor
            o2 = np.asarray(o).reshape(self.n + 1, lay.width)
            rows = o2[: self.n]
            if fo:
                if not np.array_equal(rows, st):
                    ctx.report("C08", "initial_fully_observable_observation_is_not_the_state", key=None)
            else:
                want = np.zeros_like(st)
                for i in range(self.n):
                    if st[i, lay.reachable] == 1:
                        for g in ALWAYS:
                            want[i, self.gcols[g]] = st[i, self.gcols[g]]
                if not np.array_equal(rows, want):
                    bad = np.argwhere(rows != want)[:6].tolist()
                    ctx.report("C08", "initial_partial_observation_wrong", key=None,
                               detail={"cells(row,col)": bad})

        self._sibling_probe(ctx)

    def _sibling_probe(self, ctx):
        """The initial observation must also be right when ANOTHER scenario of the same array shape has
        been built in between (several environments normally coexist in a process): build a sibling
        scenario (second subnet made public, host configurations rotated), then reset again."""
        import copy
        from nasim.envs import NASimEnv
        from .spec import to_scenario
        spec = ctx.spec
        if "subnets" not in spec or len(spec["subnets"]) < 2:
            return
        sib = copy.deepcopy(spec)
        sib["name"] = spec["name"] + "-sibling"
        t = sib["topology"]
        if t[0][2] == 1:
            return
        t[0][2] = t[2][0] = 1
        srvs = list(sib["services"])
        sib["firewall"][(0, 2)] = srvs
        sib["firewall"][(2, 0)] = []
        try:
            sc2 = to_scenario(sib)
            for fo in (False, True):
                e2 = NASimEnv(sc2, fully_obs=fo, flat_actions=True, flat_obs=True)
                e2.reset()
        except Exception:
            return
        lay = ctx.layout
        for env, fo in ((ctx.env, False), (ctx.env_fo, True)):
            o, _ = env.reset()
            st = env.current_state.tensor
            rows = np.asarray(o).reshape(self.n + 1, lay.width)[: self.n]
            if fo:
                want = st
            else:
                want = np.zeros_like(st)
                for i in range(self.n):
                    if st[i, lay.reachable] == 1:
                        for g in ALWAYS:
                            want[i, self.gcols[g]] = st[i, self.gcols[g]]
            ctx.stats[("C08", "initial_observation_after_sibling_scenario")] += 1
            if not np.array_equal(rows, want):
                ctx.report("C08", "initial_observation_wrong_after_another_scenario_was_built", key=None,
                           detail={"fully_obs": fo, "cells(row,col)": np.argwhere(rows != want)[:6].tolist()})

    def _aux(self, ctx, tr, obs_t, mode):
        aux = obs_t[self.n]
        f = _flags(tr.info)
        want = np.zeros_like(aux)
        want[:4] = [float(x) for x in f]
        if not np.array_equal(aux, want):
            ctx.report("C08", f"auxiliary_row_wrong[{mode}]", tr,
                       detail={"aux": aux[:6].tolist(), "flags": f})

    def on_transition(self, ctx, tr):
        lay, m = ctx.layout, ctx.model
        n = self.n
        mact = tr.mact
        typ = mact["type"]
        s2 = tr.s2.tensor
        # ---------------- fully observable twin
        ctx.seam.arm(tr.draw)
        s2f, obs_fo, _, _, info_fo = ctx.env_fo.generative_step(tr.s, tr.action)
        of = obs_fo.tensor
        if not np.array_equal(of[:n], s2f.tensor):
            ctx.report("C08", "fully_observable_rows_differ_from_resulting_state", tr)
        f = _flags(info_fo)
        wa = np.zeros_like(of[n]); wa[:4] = [float(x) for x in f]
        if not np.array_equal(of[n], wa):
            ctx.report("C08", "auxiliary_row_wrong[fully_obs]", tr, detail={"aux": of[n][:6].tolist(), "flags": f})
        # ---------------- partially observable
        ot = tr.obs.tensor
        self._aux(ctx, tr, ot, "partially_obs")
        rows = ot[:n]
        nz = rows != 0
        succ = bool(tr.info["success"])
        if typ == "noop" or not succ:
            if nz.any():
                ctx.report("C08", "failed_action_or_noop_reveals_host_information", tr,
                           detail={"cells(row,col)": np.argwhere(nz)[:6].tolist()})
            return
        ctx.nontrivial["C08"] += 1
        if not np.array_equal(rows[nz], s2[nz]):
            bad = [(int(r), int(c)) for r, c in np.argwhere(nz) if rows[r, c] != s2[r, c]]
            ctx.report("C08", "observed_cell_differs_from_resulting_state", tr,
                       detail={"cells(row,col)": bad[:6]})
            return
        ti = m.row[mact["target"]]
        allowed_rows = {ti}
        if typ == "subnet_scan":
            allowed_rows |= set(m.neigh_rows[mact["target"][0]])
        seen_rows = set(np.nonzero(nz.any(axis=1))[0].tolist())
        if not seen_rows <= allowed_rows:
            ctx.report("C08", "information_about_hosts_outside_the_action's_scope", tr,
                       detail={"rows": [str(m.addrs[i]) for i in sorted(seen_rows - allowed_rows)]})
            return
        for r in sorted(seen_rows | {ti}):
            if typ == "subnet_scan" and r != ti:
                req, permitted = set(), ALWAYS | {"discovery_value"}
            elif typ == "subnet_scan":
                req = set()
                permitted = ALWAYS | EXTRA["subnet_scan"] | {"discovery_value"}
            else:
                req = REQ[typ]
                permitted = req | ALWAYS | EXTRA.get(typ, set())
            got_groups = {self.col_group[c] for c in np.nonzero(nz[r])[0].tolist()}
            if not got_groups <= permitted:
                ctx.report("C08", "feature_group_not_entitled_by_action_type", tr,
                           detail={"host": str(m.addrs[r]), "groups": sorted(got_groups - permitted),
                                   "action_type": typ})
                return
            for g in req:
                if not np.array_equal(rows[r, self.gcols[g]], s2[r, self.gcols[g]]):
                    ctx.report("C08", "entitled_feature_group_not_revealed_in_full", tr,
                               detail={"host": str(m.addrs[r]), "group": g,
                                       "observed": rows[r, self.gcols[g]].tolist(),
                                       "state": s2[r, self.gcols[g]].tolist()})
                    return
        if typ == "subnet_scan":
            # the scanned subnets' hosts are what the scan reveals: each must at least be identified
            for r in m.neigh_rows[mact["target"][0]]:
                for g in ("address", "discovered"):
                    if not np.array_equal(rows[r, self.gcols[g]], s2[r, self.gcols[g]]):
                        ctx.report("C08", "subnet_scan_does_not_reveal_scanned_host", tr,
                                   detail={"host": str(m.addrs[r]), "group": g})
                        return


# =============================================================================================== C13 (purity)
class C13Purity(Oracle):
    """generative_step never modifies its argument, the environment's current state / last
    observation / step counter, and returns storage of its own."""
    pid = "C13"

    def on_scenario(self, ctx):
        self.states = {}
        self._i = 0

    def on_state(self, ctx, s, key, ms):
        self.states[key] = s

    def pre_transition(self, ctx, s, key, action, side):
        env = ctx.env
        # the environment's own current state is deliberately a DIFFERENT reachable state
        par = ctx.parent.get(key)
        # (no state expanded yet: the zero-deviation walk of a path-bounded scenario comes before the expansion)
        first = self.states[next(iter(self.states))] if self.states else env.current_state
        if side == "above" and par is not None:
            c = self.states.get(par[0], first)
        else:
            c = first
        env.current_state = c
        self._c = c
        self._c_bytes = c.tensor.tobytes()
        self._lo = env.last_obs
        self._lo_bytes = env.last_obs.tensor.tobytes()
        self._steps = env.steps

    def on_transition(self, ctx, tr):
        env = ctx.env
        ctx.nontrivial["C13"] += 1 if tr.key2 != tr.key else 0
        if not hasattr(ctx, "gen_obs_hash"):
            ctx.gen_obs_hash = {}
        # remembered for the env-object pass: step() LATER (after many other generative steps) must still
        # give this observation for the same state, action and draw
        ctx.gen_obs_hash[(tr.key, tr.a_idx, tr.side)] = hash(tr.obs.tensor.tobytes())
        if tr.s.tensor.tobytes() != tr.key:
            ctx.report("C13", "argument_state_modified", tr)
            tr.s.tensor[...] = np.frombuffer(tr.key, dtype=tr.s.tensor.dtype).reshape(tr.s.tensor.shape)
        if env.current_state is not self._c or self._c.tensor.tobytes() != self._c_bytes:
            ctx.report("C13", "environment_current_state_modified", tr)
            self._c.tensor[...] = np.frombuffer(self._c_bytes, dtype=self._c.tensor.dtype).reshape(self._c.tensor.shape)
            env.current_state = self._c
        if env.last_obs is not self._lo or self._lo.tensor.tobytes() != self._lo_bytes:
            ctx.report("C13", "environment_last_observation_modified", tr)
            env.last_obs = self._lo
        if env.steps != self._steps:
            ctx.report("C13", "step_counter_modified", tr, detail={"before": self._steps, "after": env.steps})
            env.steps = self._steps
        if tr.s2 is tr.s or np.shares_memory(tr.s2.tensor, tr.s.tensor):
            ctx.report("C13", "next_state_shares_storage_with_argument", tr)


ORACLES = {"C01": C01, "C02": C02, "C03": C03, "C04": C04, "C05": C05, "C06": C06, "C07": C07,
           "C08": C08, "C13": C13Purity}
