"""Seams: every source of nondeterminism the checks own, installed from outside by
replacing module-level names that the code under test looks up at call time.

draw seam   : the module global `np` of every nasim.envs module is replaced by a proxy whose
              `random.{rand,random,random_sample,uniform}` return the scripted draw and count calls.
              Everything else forwards to NumPy. (The dynamics draw exactly once, in network.py;
              patching all envs modules means a change that moves or duplicates the draw is still
              owned by the script instead of making the run nondeterministic.)
"""
import numpy as _np

from .common import HarnessError, import_nasim


class _RandomProxy:
    def __init__(self, seam):
        self._seam = seam

    def rand(self, *shape):
        return self._seam._draw(shape)

    def random(self, size=None):
        return self._seam._draw(() if size is None else (size,))

    def random_sample(self, size=None):
        return self._seam._draw(() if size is None else (size,))

    def uniform(self, low=0.0, high=1.0, size=None):
        return low + (high - low) * self._seam._draw(() if size is None else (size,))

    def __getattr__(self, k):
        # anything else (seed, choice, randint ...) is real NumPy; counted so that a check can
        # notice that the code consulted an entropy source the script does not own
        self._seam.other_calls[k] = self._seam.other_calls.get(k, 0) + 1
        return getattr(_np.random, k)


class _NumpyProxy:
    def __init__(self, seam):
        self.random = _RandomProxy(seam)

    def __getattr__(self, k):
        return getattr(_np, k)


class DrawSeam:
    """Scripted replacement for the uniform draw of the dynamics."""

    ENVS_MODULES = ("network", "host_vector", "state", "observation", "environment", "action")

    def __init__(self):
        self.value = None      # value every draw of the current step returns
        self.calls = 0         # number of draws consumed since arm()
        self.other_calls = {}
        self._installed = []
        self._proxy = _NumpyProxy(self)

    def _draw(self, shape):
        if self.value is None:
            raise HarnessError("draw consumed while no draw was scripted")
        self.calls += 1
        if shape and shape != ():
            return _np.full(shape, self.value)
        return self.value

    def arm(self, value):
        self.value = value
        self.calls = 0

    def install(self):
        import_nasim()
        import importlib
        for m in self.ENVS_MODULES:
            mod = importlib.import_module(f"nasim.envs.{m}")
            if hasattr(mod, "np"):
                self._installed.append((mod, mod.np))
                mod.np = self._proxy
        return self

    def uninstall(self):
        for mod, orig in self._installed:
            mod.np = orig
        self._installed = []

    def __enter__(self):
        return self.install()

    def __exit__(self, *a):
        self.uninstall()


def draw_values(prob):
    """The two scripted draws for an action of success probability `prob`:
    one strictly inside each side of `prob` where that side is non-empty, otherwise two interior
    points of (0,1) (prob 0 / prob 1: both must give the same outcome). Ties are never scripted."""
    p = float(prob)
    if 0.0 < p < 1.0:
        return {"below": p * 0.5, "above": p + (1.0 - p) * 0.5}
    return {"below": 1e-9, "above": 1.0 - 1e-9}
