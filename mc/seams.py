"""Seams: every source of nondeterminism the checks own, installed from outside by
replacing module-level names that the code under test looks up at call time.

draw seam   : the module global `np` of every nasim.envs module is replaced by a proxy whose
              `random.{rand,random,random_sample,uniform}` return the scripted draw and count calls.
              Everything else forwards to NumPy. (The dynamics draw exactly once, in network.py;
              patching all envs modules means a change that moves or duplicates the draw is still
              owned by the script instead of making the run nondeterministic.)
"""
import numpy as _np

from .common import HarnessError, import_nasim


class _RandomProxy:
    def __init__(self, seam):
        self._seam = seam

    def rand(self, *shape):
        return self._seam._draw(shape)

    def random(self, size=None):
        return self._seam._draw(() if size is None else (size,))

    def random_sample(self, size=None):
        return self._seam._draw(() if size is None else (size,))

    def uniform(self, low=0.0, high=1.0, size=None):
        return low + (high - low) * self._seam._draw(() if size is None else (size,))

    def __getattr__(self, k):
        # anything else (seed, choice, randint ...) is real NumPy; counted so that a check can
        # notice that the code consulted an entropy source the script does not own
        self._seam.other_calls[k] = self._seam.other_calls.get(k, 0) + 1
        return getattr(_np.random, k)


class _NumpyProxy:
    def __init__(self, seam):
        self.random = _RandomProxy(seam)

    def __getattr__(self, k):
        return getattr(_np, k)


# ---------------------------------------------------------------------------------------------------------
# Global wrappers around numpy.random.{rand,random,random_sample,uniform}: installed when this module is imported
# (mc.common.import_nasim imports it BEFORE nasim), so that code which binds the function early
# (`from numpy.random import rand`) or reaches it through another alias still goes through the seam while one is
# armed; with no armed seam they are the original functions.
import os as _os
import sys as _sys
_ENVS_DIR = _os.sep + "nasim" + _os.sep + "envs" + _os.sep
_ACTIVE = []          # stack of installed DrawSeam objects
_ORIG = {}


def _wrap(name):
    orig = getattr(_np.random, name)
    _ORIG[name] = orig

    def w(*a, **k):
        if _ACTIVE and _ACTIVE[-1].value is not None and _ACTIVE[-1].intercept_global \
                and _ENVS_DIR in _sys._getframe(1).f_code.co_filename:     # only draws made by the dynamics
            seam = _ACTIVE[-1]
            if name == "rand":
                return seam._draw(a)
            if name == "uniform":
                low = k.get("low", a[0] if len(a) > 0 else 0.0)
                high = k.get("high", a[1] if len(a) > 1 else 1.0)
                size = k.get("size", a[2] if len(a) > 2 else None)
                return low + (high - low) * seam._draw(() if size is None else (size,))
            size = k.get("size", a[0] if a else None)
            return seam._draw(() if size is None else (size,))
        return orig(*a, **k)
    w.__name__ = name
    return w


if not getattr(_np.random, "_nasim_verif_wrapped", False):
    for _n in ("rand", "random", "random_sample", "uniform"):
        setattr(_np.random, _n, _wrap(_n))
    _np.random._nasim_verif_wrapped = True


class DrawSeam:
    """Scripted replacement for the uniform draw of the dynamics."""

    ENVS_MODULES = ("network", "host_vector", "state", "observation", "environment", "action")

    def __init__(self):
        self.value = None      # value every draw of the current step returns
        self.calls = 0         # number of draws consumed since arm()
        self.other_calls = {}
        self._installed = []
        self.intercept_global = True
        self._proxy = _NumpyProxy(self)

    def _draw(self, shape):
        if self.value is None:
            raise HarnessError("draw consumed while no draw was scripted")
        self.calls += 1
        if shape and shape != ():
            return _np.full(shape, self.value)
        return self.value

    def arm(self, value):
        self.value = value
        self.calls = 0

    def install(self):
        import_nasim()
        import importlib
        for m in self.ENVS_MODULES:
            mod = importlib.import_module(f"nasim.envs.{m}")
            if hasattr(mod, "np"):
                self._installed.append((mod, mod.np))
                mod.np = self._proxy
        if self not in _ACTIVE:
            _ACTIVE.append(self)
        return self

    def uninstall(self):
        for mod, orig in self._installed:
            mod.np = orig
        self._installed = []
        if self in _ACTIVE:
            _ACTIVE.remove(self)

    def __enter__(self):
        return self.install()

    def __exit__(self, *a):
        self.uninstall()


def draw_values(prob):
    """The two scripted draws for an action of success probability `prob`:
    one strictly inside each side of `prob` where that side is non-empty, otherwise two interior
    points of (0,1) (prob 0 / prob 1: both must give the same outcome). Ties are never scripted."""
    p = float(prob)
    if 0.0 < p < 1.0:
        return {"below": p * 0.5, "above": p + (1.0 - p) * 0.5}
    return {"below": 1e-9, "above": 1.0 - 1e-9}
