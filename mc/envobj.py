"""Environment-object explorer: the operations `reset()` and `step()` of a live NASimEnv, applied in
EVERY reachable state of the state graph (installed through the documented public attributes
`current_state` / `steps`), i.e. the product space (state, steps) closed under {step(a, draw), reset()}.

Serves: C04 (reset restores the start, whatever happened before), C03 (discovery at reset),
        C06 (step-limit flag, step counting), C13 (step() agrees with generative_step()).
Runs as a post-pass of the sweep (it needs the reachable set).
"""
import math

import numpy as np

from .common import HarnessError
from .seams import draw_values


def _info_canon(info):
    out = {}
    for k, v in info.items():
        if isinstance(v, dict):
            out[k] = tuple(sorted((str(a), float(b)) for a, b in v.items()))
        elif isinstance(v, (bool, np.bool_)):
            out[k] = bool(v)
        else:
            try:
                out[k] = float(v)
            except Exception:
                out[k] = repr(v)
    return out


def post_explore(ctx, res, pids, opts):
    nasim_env_cls = type(ctx.env)
    env, seam, model, lay = ctx.env, ctx.seam, ctx.model, ctx.layout
    order, seen = res["order"], res["seen"]
    keys = list(seen.keys())
    depth = {}
    for k in keys:
        p = ctx.parent.get(k)
        if p is None:
            depth[k] = 0
        elif p[0] in depth:
            depth[k] = depth[p[0]] + 1
        else:
            depth[k] = len(ctx.history_of(k))       # path-bounded mode: the parent may not be an expanded state
    limit = ctx.scenario.step_limit
    want_reset = bool({"C04", "C03", "C05"} & set(pids))
    want_limit = "C06" in pids
    want_agree = "C13" in pids
    counts = {"resets": 0, "steps": 0, "probe_steps": 0, "limit_reached_cases": 0, "states": len(keys)}

    # ---------------- reference: a FRESH environment of the same scenario
    fresh = nasim_env_cls(ctx.scenario, fully_obs=False, flat_actions=True, flat_obs=True)
    o0, _ = fresh.reset()
    ref_bytes = fresh.current_state.tensor.tobytes()
    ref_obs = np.asarray(o0).tobytes()
    ms0 = lay.status(fresh.current_state.tensor)
    if want_reset and ms0 != model.initial_state():
        ctx.report("C04", "initial_state_is_not_the_scenario_start", key=None,
                   detail={"decoded": ms0, "expected": model.initial_state()})
    # probe: the BFS-tree history of the deepest state (<= 4 steps), run on the fresh env
    deepest = max(keys, key=lambda k: (depth[k], -seen[k])) if keys else None
    probe = ctx.history_of(deepest)[: (10 if "C05" in pids else 4)] if deepest is not None else []

    def run_probe(e):
        fp = []
        for a_idx, side in probe:
            seam.arm(draw_values(ctx.mactions[a_idx]["prob"])[side])
            o, r, d, t, info = e.step(ctx.actions[a_idx])
            fp.append((np.asarray(o).tobytes(), float(r), bool(d), bool(t), bool(info["success"]),
                       e.current_state.tensor.tobytes(), e.steps))
        return fp

    ref_probe = run_probe(fresh) if want_reset else None

    some_obs = env.last_obs
    for s, key in zip(order, keys):
        ms = ctx.decode(key, s.tensor)
        d0 = depth[key]
        # ------------------------------------------------------------ reset from here
        if want_reset:
            for k in (d0, d0 + 3):
                env.current_state = s
                env.steps = k
                env.last_obs = some_obs
                o, info = env.reset()
                counts["resets"] += 1
                if s.tensor.tobytes() != key:
                    s.tensor[...] = np.frombuffer(key, dtype=s.tensor.dtype).reshape(s.tensor.shape)
                got = env.current_state.tensor.tobytes()
                if "C05" in pids and k == d0 and probe and (seen[key] % 3 == 0 or key == deepest):
                    # C05 across episodes: the same history after this reset must pay the same rewards as on a
                    # fresh environment (whatever the reset left behind)
                    fp5 = run_probe(env)
                    counts["probe_steps"] += len(probe)
                    rew_diff = [j for j, (x, y) in enumerate(zip(fp5, ref_probe)) if x[1] != y[1]]
                    if rew_diff:
                        ctx.report("C05", "reward_of_the_same_history_differs_after_reset", key=key,
                                   detail={"probe_history": probe, "step": rew_diff[0],
                                           "reward_after_reset": fp5[rew_diff[0]][1],
                                           "reward_on_fresh_environment": ref_probe[rew_diff[0]][1]})
                    env.current_state = s
                    env.steps = k
                    env.reset()
                    got = env.current_state.tensor.tobytes()
                if got != ref_bytes:
                    ms_r = lay.status(env.current_state.tensor)
                    pid = "C04"
                    ctx.report(pid, "reset_does_not_restore_initial_state", key=key,
                               detail={"steps_before": k, "status_after_reset": ms_r,
                                       "initial_status": ms0})
                    if "C03" in pids:
                        disc = [model.addrs[i] for i in range(len(ms_r)) if ms_r[i][2]]
                        pub = [a for a in model.addrs if model.public[a[0]]]
                        if sorted(disc) != sorted(pub):
                            ctx.report("C03", "hosts_discovered_at_reset_are_not_the_public_ones", key=key,
                                       detail={"discovered": [str(a) for a in disc], "public": [str(a) for a in pub]})
                elif env.steps != 0:
                    ctx.report("C04", "reset_does_not_zero_step_counter", key=key, detail={"steps": env.steps})
                elif np.asarray(o).tobytes() != ref_obs:
                    ctx.report("C04", "reset_observation_differs_from_first_reset", key=key)
                elif k == d0 and probe and (seen[key] % 7 == 0 or key == deepest):
                    # differential against the fresh environment: same history after the reset must
                    # behave identically (catches state kept outside current_state / steps)
                    fp = run_probe(env)
                    counts["probe_steps"] += len(probe)
                    if fp != ref_probe:
                        rew_diff = [j for j, (x, y) in enumerate(zip(fp, ref_probe)) if x[1] != y[1]]
                        if "C05" in pids and rew_diff:
                            ctx.report("C05", "reward_of_the_same_history_differs_after_reset", key=key,
                                       detail={"probe_history": probe, "step": rew_diff[0],
                                               "reward_after_reset": fp[rew_diff[0]][1],
                                               "reward_on_fresh_environment": ref_probe[rew_diff[0]][1]})
                        ctx.report("C04", "behaviour_after_reset_differs_from_fresh_environment", key=key,
                                   detail={"probe_history": probe})
        # ------------------------------------------------------------ C06: "since the last reset"
        if want_limit and (seen[key] < 60 or seen[key] % 5 == 0):
            for k in (d0, d0 + 2):
                env.current_state = s
                env.steps = k
                env.reset()
                a0 = 0
                seam.arm(draw_values(ctx.mactions[a0]["prob"])["below"])
                o, r, done, trunc, info = env.step(ctx.actions[a0])
                counts["steps"] += 1
                want_tr = (limit is not None) and (1 >= limit)
                if env.steps != 1 or bool(trunc) != want_tr:
                    ctx.report("C06", "step_count_since_last_reset_wrong", key=key,
                               detail={"steps_before_reset": k, "steps_after_reset_and_one_step": env.steps,
                                       "step_limit": limit, "flag": bool(trunc)})
                    break
        # ------------------------------------------------------------ step from here
        if not (want_limit or want_agree):
            continue
        if limit is not None and limit <= 6:
            ks = sorted(set([d0] + list(range(d0, limit + 2))))
        elif limit is not None:
            # the flag is a function of the step count only: the values around the limit plus the
            # state's own depth (stated bound; every count in between behaves like d0)
            ks = sorted(set([d0] + [k for k in (limit - 2, limit - 1, limit, limit + 1) if k >= d0]))
        else:
            ks = [d0, d0 + 1000]
        for a_idx, action in enumerate(ctx.actions):
            mact = ctx.mactions[a_idx]
            if mact is None:
                continue
            dv = draw_values(mact["prob"])
            for side in (("below", "above") if want_agree and mact["type"] != "noop" else ("below",)):
                gen = None
                if want_agree:
                    seam.arm(dv[side])
                    gen = env.generative_step(s, action)
                for k in (ks if want_limit else [d0]):
                    env.current_state = s
                    env.steps = k
                    if want_limit:
                        # any number of generative steps in between must not count
                        seam.arm(dv[side])
                        env.generative_step(order[0], action)
                        if env.steps != k:
                            ctx.report("C06", "generative_step_changed_step_counter", key=key,
                                       detail={"before": k, "after": env.steps})
                            env.steps = k
                    seam.arm(dv[side])
                    o, r, done, trunc, info = env.step(action)
                    counts["steps"] += 1
                    if s.tensor.tobytes() != key:
                        s.tensor[...] = np.frombuffer(key, dtype=s.tensor.dtype).reshape(s.tensor.shape)
                    if want_limit:
                        want_tr = (limit is not None) and (k + 1 >= limit)
                        if want_tr:
                            counts["limit_reached_cases"] += 1
                        if env.steps != k + 1:
                            ctx.report("C06", "step_counter_not_incremented_by_one", key=key,
                                       detail={"before": k, "after": env.steps, "action_index": a_idx})
                        elif bool(trunc) != want_tr:
                            ctx.report("C06", "step_limit_flag_wrong", key=key,
                                       detail={"steps_after": k + 1, "step_limit": limit,
                                               "flag": bool(trunc), "terminal": bool(done),
                                               "action_index": a_idx, "draw_side": side})
                    if want_agree and k == d0:
                        s2, gobs, gr, gdone, ginfo = gen
                        gflat = gobs.numpy_flat() if hasattr(gobs, "numpy_flat") else None
                        problems = []
                        if np.asarray(o).tobytes() != np.asarray(gflat).tobytes():
                            problems.append("observation")
                        rec = getattr(ctx, "gen_obs_hash", {}).get((key, a_idx, side))
                        if rec is not None and rec != hash(env.last_obs.tensor.tobytes()):
                            problems.append("observation_of_the_generative_step_made_during_exploration")
                        if not (float(r) == float(gr)):
                            problems.append("reward")
                        if bool(done) != bool(gdone):
                            problems.append("terminal")
                        if _info_canon(info) != _info_canon(ginfo):
                            problems.append("info")
                        if env.current_state.tensor.tobytes() != s2.tensor.tobytes():
                            problems.append("installed_state")
                        if env.last_obs.tensor.tobytes() != gobs.tensor.tobytes():
                            problems.append("last_obs")
                        if problems:
                            ctx.report("C13", "step_disagrees_with_generative_step:" + "+".join(problems), key=key,
                                       detail={"action_index": a_idx, "action": str(action), "draw_side": side,
                                               "differs": problems})
    # ------------------------------------------------------------------ C13: step() after a REAL history vs
    # generative_step() of a pristine environment on the same state (the result of a step must be a function
    # of state, action and draw only - not of how the environment object got there)
    if want_agree:
        env2 = nasim_env_cls(ctx.scenario, fully_obs=False, flat_actions=True, flat_obs=True)
        env2.reset()
        chosen = [i for i in range(len(keys)) if i < 40 or i % 10 == 0]
        for i in chosen:
            s, key = order[i], keys[i]
            hist = ctx.history_of(key)
            if not hist:
                continue
            stride = 1 if len(ctx.actions) <= 150 else (len(ctx.actions) // 100)
            for a_idx, action in enumerate(ctx.actions):
                mact = ctx.mactions[a_idx]
                if mact is None or mact["type"] == "noop" or (a_idx + i) % stride:
                    continue
                dv = draw_values(mact["prob"])
                for side in ("below", "above"):
                    env.reset()
                    for h_idx, h_side in hist:
                        seam.arm(draw_values(ctx.mactions[h_idx]["prob"])[h_side])
                        env.step(ctx.actions[h_idx])
                    if env.current_state.tensor.tobytes() != key:
                        # the graph was built by generative steps with exactly these actions and scripted draws
                        ctx.report("C13", "step_history_does_not_reach_the_state_generative_steps_reached", key=key,
                                   detail={"history": hist,
                                           "note": "reset() + the recorded (action, draw) history through step() ends in a different "
                                                   "state than the chain of generative steps that discovered this state"})
                        break
                    seam.arm(dv[side])
                    o, r, done, trunc, info = env.step(action)
                    seam.arm(dv[side])
                    s2, gobs, gr, gdone, ginfo = env2.generative_step(s, action)
                    counts["steps"] += 1 + len(hist)
                    problems = []
                    if np.asarray(o).tobytes() != np.asarray(gobs.numpy_flat()).tobytes():
                        problems.append("observation")
                    if float(r) != float(gr):
                        problems.append("reward")
                    if bool(done) != bool(gdone):
                        problems.append("terminal")
                    if _info_canon(info) != _info_canon(ginfo):
                        problems.append("info")
                    if env.current_state.tensor.tobytes() != s2.tensor.tobytes():
                        problems.append("next_state")
                    if problems:
                        ctx.report("C13", "step_after_real_history_disagrees_with_generative_step_on_the_same_state:"
                                   + "+".join(problems), key=key,
                                   detail={"action_index": a_idx, "action": str(action), "draw_side": side,
                                           "differs": problems,
                                           "note": "step(): reset + recorded history + action on one environment; "
                                                   "generative_step(): same state object handed to a freshly reset environment"})
                        break
                else:
                    continue
                break
    env.reset()
    return counts
