"""C17 — a loaded YAML scenario means exactly what the file says.

Valid-document grammar = YAML form of the scenario family x surface-format axes (os none|None|name,
access word|int, 1 vs 1.0, repeated sensitive value, empty host firewall, omitted zero value,
flow|block style) — pairwise over the format axes in quick, full product in thorough — plus the nine
shipped files. Oracle: an independent reader (yaml.safe_load + documented meaning, mc/spec.py) vs the
Scenario returned by the real nasim.load_scenario; being accepted is itself part of the oracle.
"""
import itertools
import multiprocessing as mp
import time

import yaml

from .common import HarnessError, import_nasim, ncpu
from .evidence import finish, rotate
from .family import family, pairwise, SHIPPED_ALL, shipped_path
from .spec import (dump_yaml, host_value, load_yaml_text_with_nasim, spec_from_yaml_doc, spec_to_json,
                   to_yaml_doc, yaml_expressible, all_addresses, rename_spec, SUBSTRING_NAMES)

RULE = ("documents = yaml-expressible family scenarios x format styles (+ 9 shipped files), each loaded with the real "
        "loader and compared field by field with an independent reading of the same text; non-trivial = document that "
        "carries at least one host firewall, non-default host value, OS-agnostic or probability-1.0 exploit or empty escalation section")

STYLE_AXES = {
    "os_none": ["none", "None"],
    "access": ["word", "int"],
    "numbers": ["asis", "float", "int"],
    "repeat_sensitive_value": [False, True],
    "empty_host_firewall": [False, True],
    "omit_zero_value": [False, True],
    "flow": [None, True, False],
    "keys": ["canonical"],
    "aliases": [False, True],
}


def styles(tier):
    names = list(STYLE_AXES)
    if tier == "thorough":
        # full product of the content-bearing axes; key spacing and anchors/aliases are rotated over it
        core = [n for n in names if n not in ("keys", "aliases")]
        rows = []
        for i, combo in enumerate(itertools.product(*[STYLE_AXES[n] for n in core])):
            r = dict(zip(core, combo))
            r["keys"] = "canonical"
            r["aliases"] = STYLE_AXES["aliases"][i % 2]
            rows.append(r)
    else:
        rows = pairwise(STYLE_AXES, names)
    out = []
    for r in rows:
        st = {"os_none": r["os_none"], "access": r["access"], "repeat_sensitive_value": r["repeat_sensitive_value"],
              "empty_host_firewall": r["empty_host_firewall"], "omit_zero_value": r["omit_zero_value"],
              "float_numbers": r["numbers"] == "float", "int_numbers": r["numbers"] == "int", "flow": r["flow"],
              "keys": r["keys"], "aliases": r["aliases"]}
        out.append(st)
    return out


def compare(spec, sc):
    """independent reading `spec` vs loaded Scenario `sc` -> list of (field, file_says, scenario_has)"""
    import nasim.scenarios.utils as u
    diffs = []

    def d(field, a, b):
        if a != b:
            diffs.append((field, repr(a)[:200], repr(b)[:200]))

    d("subnets", [1] + list(spec["subnets"]), [int(x) for x in sc.subnets])
    d("topology", spec["topology"], [[int(c) for c in r] for r in sc.topology])
    d("os", list(spec["os"]), list(sc.os))
    d("services", list(spec["services"]), list(sc.services))
    d("processes", list(spec["processes"]), list(sc.processes))
    d("sensitive_hosts", {a: float(v) for a, v in spec["sensitive_hosts"].items()},
      {tuple(a) if isinstance(a, (tuple, list)) else a: float(v) for a, v in sc.sensitive_hosts.items()})
    d("sensitive_addresses", sorted(spec["sensitive_hosts"]), sorted(sc.sensitive_addresses))
    for n, e in spec["exploits"].items():
        got = sc.exploits.get(n)
        if got is None:
            diffs.append((f"exploit {n}", "defined", "missing"))
            continue
        d(f"exploit {n}", (e["service"], e["os"], float(e["prob"]), float(e["cost"]), int(e["access"])),
          (got["service"], got["os"], float(got["prob"]), float(got["cost"]), got["access"]))
    d("exploit names", list(spec["exploits"]), list(sc.exploits))
    for n, e in spec["privescs"].items():
        got = sc.privescs.get(n)
        if got is None:
            diffs.append((f"privesc {n}", "defined", "missing"))
            continue
        d(f"privesc {n}", (e["process"], e["os"], float(e["prob"]), float(e["cost"]), int(e["access"])),
          (got["process"], got["os"], float(got["prob"]), float(got["cost"]), got["access"]))
    d("privesc names", list(spec["privescs"]), list(sc.privescs))
    for k, attr in (("service", "service_scan_cost"), ("os", "os_scan_cost"), ("subnet", "subnet_scan_cost"),
                    ("process", "process_scan_cost")):
        d(attr, float(spec["scan_costs"][k]), float(getattr(sc, attr)))
    d("step_limit", spec.get("step_limit"), sc.step_limit)
    d("firewall keys", sorted(spec["firewall"]), sorted(sc.firewall, key=repr) if not all(isinstance(k, tuple) for k in sc.firewall) else sorted(sc.firewall))
    for k, v in spec["firewall"].items():
        got = sc.firewall.get(k)
        d(f"firewall {k}", sorted(v), None if got is None else sorted(got))
    d("host addresses", sorted(all_addresses(spec)), sorted(sc.hosts, key=repr) if not all(isinstance(k, tuple) for k in sc.hosts) else sorted(sc.hosts))
    for a in all_addresses(spec):
        h = spec["hosts"][a]
        got = sc.hosts.get(a)
        if got is None:
            continue
        d(f"host {a} address", a, tuple(got.address))
        d(f"host {a} os", {o: (o == h["os"]) for o in spec["os"]}, {k: bool(v) for k, v in got.os.items()})
        d(f"host {a} services", {s: (s in h["services"]) for s in spec["services"]}, {k: bool(v) for k, v in got.services.items()})
        d(f"host {a} processes", {p: (p in h["processes"]) for p in spec["processes"]}, {k: bool(v) for k, v in got.processes.items()})
        d(f"host {a} value", host_value(spec, a), float(got.value))
        d(f"host {a} firewall", {k: sorted(v) for k, v in h.get("firewall", {}).items()},
          {k: sorted(v) for k, v in got.firewall.items()})
        # the deny list must actually be consulted for tuple addresses (the form the environment uses)
        for src, denied in h.get("firewall", {}).items():
            for srv in spec["services"]:
                d(f"host {a} traffic_permitted({src},{srv})", srv not in denied, bool(got.traffic_permitted(src, srv)))
    return diffs


def _interesting(spec):
    return (any(h.get("firewall") for h in spec["hosts"].values())
            or any(float(h.get("value", 0)) != 0 for h in spec["hosts"].values())
            or any(e["os"] is None or float(e["prob"]) == 1.0 for e in spec["exploits"].values())
            or not spec["privescs"])


def _check_text(args):
    name, text, style = args
    import_nasim()
    out = {"name": name, "style": style, "violations": [], "interesting": False}
    try:
        doc = yaml.safe_load(text)
        spec = spec_from_yaml_doc(doc, name=name)
    except Exception as e:
        out["harness"] = f"independent reader failed on a grammar document: {type(e).__name__}: {e}"
        return out
    out["interesting"] = _interesting(spec)
    try:
        sc = load_yaml_text_with_nasim(text, name=name)
    except Exception as e:
        out["violations"].append({"property": "C17", "kind": "valid_document_rejected:" + type(e).__name__,
                                  "engine": "loader", "scenario_name": name, "style": style,
                                  "detail": {"exception": f"{type(e).__name__}: {str(e)[:300]}"}, "document": text})
        return out
    try:
        diffs = compare(spec, sc)
    except Exception as e:
        diffs = [("comparison raised", type(e).__name__, str(e)[:200])]
    if diffs:
        out["violations"].append({"property": "C17", "kind": "loaded_scenario_differs_from_file:" + diffs[0][0].split(" (")[0].split(" ")[0],
                                  "engine": "loader", "scenario_name": name, "style": style,
                                  "detail": {"differences(field,file,scenario)": diffs[:6]}, "document": text})
    return out


def documents(tier):
    docs = []
    specs = []
    seen = set()
    for sp, binding in family(tier):
        if binding not in ("yaml", "dict") or not yaml_expressible(sp) or sp["name"] in seen:
            continue
        seen.add(sp["name"])
        specs.append(sp)
    # full style product on the 2-subnet shapes (thorough: on every shape), pairwise on the rest
    full, pw = styles("thorough"), styles("quick")
    n_full = 0
    for sp in specs:
        use_full = tier == "thorough" or (len(sp["subnets"]) == 2 and n_full < 8)
        n_full += 1 if use_full else 0
        use = full if use_full else pw
        for k, st in enumerate(use):
            doc = to_yaml_doc(sp, st)
            docs.append((f"{sp['name']}#s{k}", dump_yaml(doc, flow=st.get("flow")), st))
        # names are free-form labels: the same scenario with names that contain one another
        # (win / win-server, ftp / sftp, cron / anacron), in two styles
        rn = rename_spec(sp, SUBSTRING_NAMES)
        for k in (0, len(pw) // 2):
            docs.append((f"{rn['name']}#s{k}", dump_yaml(to_yaml_doc(rn, pw[k]), flow=pw[k].get("flow")), pw[k]))
    from .family import scale_documents
    for sp in scale_documents():
        for k in (0, 3, 7):
            st = pw[k % len(pw)]
            docs.append((f"{sp['name']}#s{k}", dump_yaml(to_yaml_doc(sp, st), flow=st.get("flow")), st))
    for n in SHIPPED_ALL:
        with open(shipped_path(n)) as f:
            docs.append((n, f.read(), {"shipped": True}))
    return docs


def run(pid, tier):
    t0 = time.time()
    docs = documents(tier)
    n = ncpu()
    with mp.get_context("fork").Pool(processes=n) as pool:
        results = pool.map(_check_text, docs, chunksize=max(1, len(docs) // (n * 8)))
    harness = [r["harness"] for r in results if r.get("harness")]
    if harness:
        raise HarnessError(harness[0])
    violations = [v for r in results for v in r["violations"]]
    interesting = sum(1 for r in results if r["interesting"])
    # "The environment built from it therefore enforces every rule written in the file": the complete state graph
    # of every YAML-loaded family scenario that carries host firewalls or restrictive subnet rules, with the
    # firewall/pivot oracle (C02: success only if permitted) and the applicability oracle (C01: permitted and
    # applicable => succeeds) armed - here against the independent reading of the FILE.
    from .sweep import run_family
    ruled = [(sp, b) for sp, b in family(tier) if b in ("yaml", "shipped") and "subnets" in sp and (
        any(h.get("firewall") for h in sp["hosts"].values())
        or any(sorted(v) != sorted(sp["services"]) for k, v in sp["firewall"].items() if k[1] != 0)
        or sp.get("_path_only"))]      # large files: "allow" rules and the topology are rules of the file too
    # ... and the value / cost oracle (C05): host values, sensitive values and costs written in the file are what a step pays
    agg, dyn_viol, errors = run_family(["C01", "C02", "C05"], tier, {}, entries=ruled)
    if errors:
        raise HarnessError("; ".join(errors[:3]))
    for v in dyn_viol:
        v = dict(v)
        v["enforced_property"] = v["property"]
        v["property"] = "C17"
        v["kind"] = "environment_does_not_enforce_the_file:" + str(v["kind"])
        v["engine"] = "sweep_on_yaml_binding"
        violations.append(v)
    samples = [{"document": d[0], "style": d[2], "first_lines": d[1].splitlines()[:6]} for d in rotate(docs, 3)]
    cov = {
        "states": len(docs), "transitions": len(docs),
        "traces_validated_against_impl": len(docs),
        "evaluations": len(docs), "distinct_nontrivial": interesting,
        "rule": RULE, "samples": samples, "exhaustive": True,
        "documents": len(docs), "shipped_files": len(SHIPPED_ALL),
        "yaml_scenarios_explored_for_rule_enforcement": agg["scenarios"],
        "enforcement_transitions": agg["transitions"],
        "format_styles": len(styles(tier)),
        "bound": "family documents x format styles (" + ("full product (384 styles)" if tier == "thorough" else "full product (384 styles) on eight 2-subnet scenarios, pairwise otherwise") + ") + 9 shipped files",
        "note": "states/transitions = documents loaded / load-and-compare operations",
    }
    assume = ["'documented format' = docs/source/tutorials/creating_scenarios.rst; documents are produced by the grammar in mc/family.py + mc/spec.to_yaml_doc",
              "that the environment ENFORCES every loaded rule is decided by the C02 sweep, which runs on the YAML-loaded form of every family scenario"]
    return finish(pid, tier, cov, violations, assume, t0)


def replay(pid, rec):
    if rec.get("engine") == "sweep_on_yaml_binding":
        from .sweep import replay_sweep_record
        r2 = dict(rec); r2["property"] = rec["enforced_property"]; r2["kind"] = rec["kind"].split(":", 1)[1]
        return replay_sweep_record(r2)
    r = _check_text((rec.get("scenario_name", "replay"), rec["document"], rec.get("style")))
    return r["violations"]
