"""Shared plumbing: import nasim from /repo's working tree, exit codes, small helpers."""
import os
import sys

REPO = os.environ.get("NASIM_REPO", "/repo")
VERIF = os.path.dirname(os.path.dirname(os.path.abspath(__file__)))

EXIT_OK = 0
EXIT_VIOLATION = 1
EXIT_HARNESS = 2

NONE, USER, ROOT = 0, 1, 2


class HarnessError(Exception):
    """The checking machinery itself is broken (nondeterminism, vacuity, bad precondition).

    Never reported as a violation and never as a pass (exit code 2).
    """


def import_nasim():
    """Import nasim from REPO's *current working tree* and assert that is what we got."""
    if REPO not in sys.path:
        sys.path.insert(0, REPO)
    from . import seams  # noqa: F401  (global numpy.random wrappers must exist before nasim binds any of them)
    import nasim  # noqa
    got = os.path.realpath(os.path.dirname(os.path.dirname(nasim.__file__)))
    want = os.path.realpath(REPO)
    if got != want:
        raise HarnessError(f"nasim imported from {got}, expected {want}")
    return nasim


def verif_seed():
    try:
        return int(os.environ.get("VERIF_SEED", "0"))
    except ValueError:
        return 0


def ncpu():
    try:
        n = len(os.sched_getaffinity(0))
    except Exception:
        n = os.cpu_count() or 1
    cap = os.environ.get("VERIF_JOBS")
    if cap:
        n = max(1, min(n, int(cap)))
    return max(1, min(16, n))


def addr_key(a):
    """canonical textual form of an address / subnet pair as used by the YAML format"""
    return str((int(a[0]), int(a[1])))
