"""C19 — environment instances are independent of each other.

Two environments A and B each run the operation list
    [construct, reset, step a1, step a2, step a3, read, reset, step a1, read]
(`construct` includes building the Scenario: loading the YAML / generating / from a dict; `read` decodes the
current state and last observation through the public readable decoders and queries mask / goal / hop count /
score bound).  ALL interleavings of the two lists that keep each list's own order are enumerated up to a
*switch bound* (number of alternations between A and B; quick: 3, thorough: 5 switches).
Draws are scripted per step.  Oracle: each environment's observable trace in the interleaved run equals its
trace when it is the ONLY environment of a fresh interpreter.
"""
import copy
import hashlib
import itertools
import json
import multiprocessing as mp
import os
import tempfile
import time

import numpy as np

from .common import HarnessError, import_nasim, ncpu, VERIF
from .evidence import finish, rotate
from .family import build, corner_specs, shipped_path
from .seams import draw_values
from .spec import dump_yaml, to_yaml_doc, to_scenario, spec_to_json, spec_from_json
from .sweep import seam

RULE = ("pairs of scenarios (same scenario twice; equal layout / different content, YAML+YAML and YAML+dict; generated with "
        "different seeds; seeded vs unseeded benchmark; same name / different topology; different layouts) x action triples x "
        "all order-preserving interleavings of the two programs within the switch bound; "
        "non-trivial = interleaving with >= 1 switch between the two environments")

PROGRAM = ["construct", "reset", "step0", "step1", "peek", "step2", "read", "reset", "step0", "read"]


# ------------------------------------------------------------------------------------------- env descriptors
def make_env(desc):
    """build Scenario AND environment from a descriptor (this is the `construct` operation)"""
    nasim = import_nasim()
    kind = desc["kind"]
    fa = desc.get("flat_actions", True)
    if kind == "shipped":
        return nasim.load(shipped_path(desc["name"]), name=desc.get("as_name", desc["name"]), flat_actions=fa)
    if kind == "yaml":
        fd, path = tempfile.mkstemp(suffix=".yaml", prefix="nasimverif_")
        try:
            with os.fdopen(fd, "w") as f:
                f.write(desc["text"])
            return nasim.load(path, name=desc.get("as_name", "y"), flat_actions=fa)
        finally:
            os.unlink(path)
    if kind == "dict" and desc.get("share_scenario"):
        # ONE Scenario object used for several environments (a scenario is configuration)
        from nasim.envs import NASimEnv
        sc = _SHARED_SCENARIOS.get(desc["share_scenario"])
        if sc is None:
            sc = _SHARED_SCENARIOS[desc["share_scenario"]] = to_scenario(spec_from_json(desc["spec"]))
        return NASimEnv(sc, flat_actions=fa)
    if kind == "dict":
        from nasim.envs import NASimEnv
        sp = spec_from_json(desc["spec"])
        if desc.get("as_name"):
            sp["name"] = desc["as_name"]
        sc = to_scenario(sp)
        if desc.get("share_hosts"):
            # two scenario dicts may legitimately be built around the SAME Host objects (hosts are configuration)
            import nasim.scenarios.utils as u
            pool = _SHARED_HOSTS.setdefault(desc["share_hosts"], sc.scenario_dict[u.HOSTS])
            sc.scenario_dict[u.HOSTS] = pool
        return NASimEnv(sc, flat_actions=fa)
    if kind == "benchmark":
        if desc.get("np_seed_before") is not None:
            np.random.seed(desc["np_seed_before"])
        return nasim.make_benchmark(desc["name"], seed=desc.get("seed"))
    if kind == "generate":
        return nasim.generate(**desc["params"])
    raise ValueError(kind)


_SHARED_HOSTS = {}
_SHARED_SCENARIOS = {}


def layout_tuple(env):
    sc = env.scenario
    return (tuple(int(x) for x in sc.address_space_bounds), tuple(sc.os), tuple(sc.services), tuple(sc.processes))


def _canon(x):
    if isinstance(x, dict):
        return {str(k): _canon(v) for k, v in sorted(x.items(), key=lambda kv: str(kv[0]))}
    if isinstance(x, (list, tuple)):
        return [_canon(v) for v in x]
    if isinstance(x, np.ndarray):
        return hashlib.sha1(np.ascontiguousarray(x).tobytes()).hexdigest() + str(x.shape) + str(x.dtype)
    if isinstance(x, (np.floating, float)):
        return float(x)
    if isinstance(x, (np.integer, int)) and not isinstance(x, (bool, np.bool_)):
        return int(x)
    if isinstance(x, (bool, np.bool_)):
        return bool(x)
    return x if isinstance(x, (str, type(None))) else repr(x)


class Slot:
    """one environment's side of a run: executes its program step by step and records its trace"""

    def __init__(self, desc, actions, sides):
        self.desc, self.actions, self.sides = desc, actions, sides
        self.env = None
        self.pc = 0
        self.trace = []

    def do(self, sm):
        op = PROGRAM[self.pc]
        self.pc += 1
        try:
            if op == "construct":
                self.env = make_env(self.desc)
                e = self.env
                out = ["construct", _canon(e.current_state.tensor),
                       int(e.action_space.n) if e.flat_actions else [int(x) for x in e.action_space.nvec],
                       list(e.observation_space.shape), _canon(e.last_obs.tensor)]
            elif op == "reset":
                o, info = self.env.reset()
                out = ["reset", _canon(np.asarray(o)), _canon(self.env.current_state.tensor), int(self.env.steps)]
            elif op == "peek":
                # use the OTHER environment's current state as the argument of generative steps (an environment
                # used as a simulator for another one); only side effects matter, nothing is recorded
                other = getattr(self, "other", None)
                if other is not None and other.env is not None and self.desc.get("peek") and self.env.flat_actions:
                    for a in range(min(int(self.env.action_space.n), 60)):     # every action of the space
                        act = self.env.action_space.get_action(a)
                        sm.arm(draw_values(float(act.prob))["below"])
                        try:
                            self.env.generative_step(other.env.current_state, a)
                        except Exception:
                            pass
                out = ["peek"]
            elif op.startswith("step"):
                k = int(op[4:])
                a = self.actions[k]
                a = [int(x) for x in a] if isinstance(a, (list, tuple)) else int(a)
                act = self.env.action_space.get_action(a)
                other = getattr(self, "other", None)
                if self.desc.get("borrow_actions") and other is not None and other.env is not None \
                        and self.env.flat_actions and other.env.flat_actions and int(other.env.action_space.n) == int(self.env.action_space.n):
                    # the plan is replayed with the OTHER environment's Action objects (same action list by construction):
                    # an Action describes what to do, it belongs to no environment
                    a = other.env.action_space.get_action(a)
                sm.arm(draw_values(float(act.prob))[self.sides[k]])
                o, r, d, t, info = self.env.step(a)
                out = ["step", _canon(np.asarray(o)), float(r), bool(d), bool(t), _canon(info),
                       _canon(self.env.current_state.tensor), int(self.env.steps)]
            else:
                e = self.env
                host_obs, aux = e.last_obs.get_readable()
                out = ["read", _canon(e.current_state.get_readable()), _canon(host_obs), _canon(aux),
                       _canon(np.asarray(e.get_action_mask())) if e.flat_actions else None, bool(e.goal_reached()),
                       int(e.get_minimum_hops()), float(e.get_score_upper_bound()),
                       _canon(e.current_state.tensor), _canon(e.last_obs.tensor)]
        except Exception as ex:       # an exception is part of the observable trace
            out = ["EXC", op, type(ex).__name__]
        self.trace.append(out)


def run_schedule(descA, descB, actsA, actsB, sides, schedule):
    sm = seam()
    _SHARED_SCENARIOS.clear()          # a shared Scenario object is shared by the two environments of THIS run only
    A, B = Slot(descA, actsA, sides), Slot(descB, actsB, sides)
    A.other, B.other = B, A
    for who in schedule:
        (A if who == "A" else B).do(sm)
    return A.trace, B.trace


def solo_trace(desc, acts, sides):
    sm = seam()
    _SHARED_SCENARIOS.clear()
    S = Slot(desc, acts, sides)
    for _ in PROGRAM:
        S.do(sm)
    lt = layout_tuple(S.env) if S.env is not None else None
    return S.trace, lt


def interleavings(n, max_switches):
    """all order-preserving interleavings of two n-op programs with at most max_switches alternations"""
    out = []
    for combo in itertools.combinations(range(2 * n), n):
        seq = ["B"] * (2 * n)
        for i in combo:
            seq[i] = "A"
        sw = sum(1 for i in range(1, 2 * n) if seq[i] != seq[i - 1])
        if max_switches is None or sw <= max_switches:
            out.append(("".join(seq), sw))
    return out


# ------------------------------------------------------------------------------------------- pairs
def _yaml_desc(spec, as_name=None):
    return {"kind": "yaml", "text": dump_yaml(to_yaml_doc(spec)), "as_name": as_name or spec["name"],
            "spec": spec_to_json(spec)}


def pairs(tier):
    base = {"shape": "1-1-1", "topo": "full", "fw": "allow_all", "hostfw": "deny_pivot", "sw": "1os2s1p",
            "exploits": "e0e3", "privescs": "any_root", "prob": "half", "cost": "unit", "values": "zero",
            "discovery": "zero", "sensitive": "two_subnets", "step_limit": None, "bounds": "default", "host_order": "sorted"}
    s1 = build(base, name="iso-a")
    # the "anti" sibling: identical layout and topology (same firewall keys), every piece of content different:
    # all rules between internal subnets empty, other host configurations / values / costs / probabilities
    alt = dict(base); alt.update(fw="allow_all", hostfw="deny_other", values="pos_neg", sensitive="last",
                                 cost="frac", prob="one", privescs="user_grant")
    s2 = build(alt, name="iso-b")
    for k in list(s2["firewall"]):
        if k[0] != 0 and k[1] != 0:
            s2["firewall"][k] = []
    s2["firewall"][(0, 1)] = [s2["services"][1]]
    for a, h in s2["hosts"].items():
        h["services"] = [s2["services"][1]] if a != (1, 0) else list(s2["services"])
    s3 = copy.deepcopy(s1); s3["name"] = "iso-a"            # same name, different topology / public subnets
    s3["topology"][0][2] = s3["topology"][2][0] = 1
    s3["firewall"][(0, 2)] = list(s3["services"]); s3["firewall"][(2, 0)] = []
    star = dict(base); star.update(topo="star", sensitive="two_subnets")
    s4 = build(star, name="iso-a")
    s3h = copy.deepcopy(s4); s3h["name"] = "iso-a2"          # same hosts as s4, subnets 2 and 3 public as well
    for k in (2, 3):
        s3h["topology"][0][k] = s3h["topology"][k][0] = 1
        s3h["firewall"][(0, k)] = list(s3h["services"]); s3h["firewall"][(k, 0)] = []
    rev = copy.deepcopy(s1); rev["name"] = "iso-rev"          # same sizes, service list order reversed (layout differs)
    rev["services"] = list(reversed(rev["services"]))
    out = [
        ("tiny_twice", {"kind": "shipped", "name": "tiny", "peek": True}, {"kind": "shipped", "name": "tiny", "peek": True}),
        ("same_spec_twice_as_simulator", {**_yaml_desc(s1), "peek": True}, {"kind": "dict", "spec": spec_to_json(s1), "peek": True}),
        ("dict_scenarios_sharing_host_objects", {"kind": "dict", "spec": spec_to_json(s4), "share_hosts": "pool1"},
         {"kind": "dict", "spec": spec_to_json(s3h), "share_hosts": "pool1"}),
        ("yaml_vs_yaml_same_layout_other_rules", _yaml_desc(s1), _yaml_desc(s2)),
        ("yaml_vs_dict_same_spec", _yaml_desc(s1), {"kind": "dict", "spec": spec_to_json(s1)}),
        ("dict_vs_yaml_other_rules", {"kind": "dict", "spec": spec_to_json(s2)}, _yaml_desc(s1)),
        ("same_name_other_topology", _yaml_desc(s4, "iso-a"), _yaml_desc(s3, "iso-a")),
        ("parameterised_actions_yaml_vs_dict_other_definitions", {**_yaml_desc(s1), "flat_actions": False},
         {"kind": "dict", "spec": spec_to_json(s2), "flat_actions": False}),
        ("parameterised_vs_flat_other_topology", {**_yaml_desc(s4, "iso-a"), "flat_actions": False}, _yaml_desc(s2)),
        ("generated_seed1_vs_seed2", {"kind": "benchmark", "name": "tiny-gen", "seed": 1},
         {"kind": "benchmark", "name": "tiny-gen", "seed": 2}),
        ("seeded_then_unseeded_benchmark", {"kind": "benchmark", "name": "small-gen-rgoal", "seed": 3},
         {"kind": "benchmark", "name": "small-gen-rgoal", "seed": None, "np_seed_before": 5}),
        ("generate_same_params_other_seed", {"kind": "generate", "params": {"num_hosts": 5, "num_services": 2, "seed": 1, "exploit_probs": 0.5}},
         {"kind": "generate", "params": {"num_hosts": 5, "num_services": 2, "seed": 4, "exploit_probs": 0.5}}),
        ("small_twice_8_hosts", {"kind": "shipped", "name": "small", "peek": True}, {"kind": "shipped", "name": "small", "peek": True}),
        ("different_layout_tiny_vs_small", {"kind": "shipped", "name": "tiny"}, {"kind": "shipped", "name": "small"}),
        ("different_layout_reversed_services", _yaml_desc(s1), _yaml_desc(rev)),
    ]
    # the same content with the exploit definitions written in the other order (equal as dictionaries, different
    # numbering of the flat actions)
    ordc = dict(base); ordc.update(cost="frac", exploits="e0e1")        # the two exploits differ in cost AND access level
    s1c = build(ordc, name="iso-a")
    s1r = copy.deepcopy(s1c); s1r["name"] = "iso-a"
    s1r["exploits"] = dict(reversed(list(s1c["exploits"].items())))
    out.append(("yaml_same_content_other_exploit_order", _yaml_desc(s1c), _yaml_desc(s1r)))
    out.append(("dict_same_content_other_exploit_order", {"kind": "dict", "spec": spec_to_json(s1c)}, {"kind": "dict", "spec": spec_to_json(s1r)}))
    # one environment replays its plan with the Action OBJECTS of the other one (same layout and action list, other rules)
    s1y = copy.deepcopy(s1); s1y["name"] = "iso-a"                      # same hosts and actions; one rule differs: 1 -> 2 lets nothing through
    s1y["firewall"][(1, 2)] = []
    out.append(("action_objects_of_the_other_environment", _yaml_desc(s1), {**_yaml_desc(s1y), "borrow_actions": True, "same_triples": True}))
    out.append(("action_objects_of_the_other_environment_2", {**_yaml_desc(s1y), "borrow_actions": True, "same_triples": True}, _yaml_desc(s1)))
    from .family import api_specs
    two_pub = [x for x in api_specs() if x["name"] == "api-2pub"][0]
    out.append(("one_scenario_object_two_environments", {"kind": "dict", "spec": spec_to_json(two_pub), "share_scenario": "sc1"},
                {"kind": "dict", "spec": spec_to_json(two_pub), "share_scenario": "sc1"}))
    # large pair: 31 one-host subnets in a chain (topology matrix and state tensor above 1000 cells, where NumPy
    # abbreviates str(array)); the two differ ONLY in which inner subnet is public as well
    big = dict(base); big.update(shape="-".join(["1"] * 31), topo="chain", hostfw="none", sensitive="last", sw="1os1s1p",
                                 exploits="e0", privescs="any_root", prob="one")
    b1 = build(big, name="iso-chain31")
    b2 = copy.deepcopy(b1)
    for sp_, k in ((b1, 10), (b2, 20)):
        sp_["topology"][0][k] = sp_["topology"][k][0] = 1
        sp_["firewall"][(0, k)] = list(sp_["services"]); sp_["firewall"][(k, 0)] = []
    out.append(("chain31_other_inner_public_subnet", {**_yaml_desc(b1), "max_triples": 1, "max_switches": 3}, {**_yaml_desc(b2), "max_triples": 1}))
    if tier == "thorough":
        out += [
            ("small_gen_seed0_vs_seed3", {"kind": "benchmark", "name": "small-gen", "seed": 0},
             {"kind": "benchmark", "name": "small-gen", "seed": 3}),
            ("tiny_vs_tiny_hard", {"kind": "shipped", "name": "tiny"}, {"kind": "shipped", "name": "tiny-hard"}),
        ]
    return out


def action_triples(desc, tier):
    """state-changing action triples taken from the environment's own BFS tree (computed on a throw-away env)"""
    env = make_env({**desc, "flat_actions": True})
    sc = env.scenario
    # minimal exploration on the real env: depth-3 BFS with draws below
    sm = seam()
    env.reset()
    s0 = env.current_state
    n = int(env.action_space.n)
    frontier = [(s0, [])]
    seen = {s0.tensor.tobytes()}
    found = []
    for depth in range(3):
        nxt = []
        for s, hist in frontier:
            for a in range(n):
                act = env.action_space.get_action(a)
                sm.arm(draw_values(float(act.prob))["below"])
                s2, _, _, _, info = env.generative_step(s, a)
                k = s2.tensor.tobytes()
                if k not in seen:
                    seen.add(k)
                    nxt.append((s2, hist + [a]))
                    if depth == 2:
                        found.append(hist + [a])
        frontier = nxt or frontier
    triples = []
    last_seen = set()
    for h in found:                      # one history per distinct final action, so that every kind of
        if h[-1] not in last_seen:       # state-changing third step (each exploit / scan / escalation) is driven
            last_seen.add(h[-1])
            triples.append(h)
    triples = triples[: desc.get("max_triples") or (6 if tier == "quick" else 12)]
    if not triples:
        base = (frontier[0][1] + [0, 1, 2])[:3]
        triples = [base]
    triples = [[int(x) for x in t] for t in triples]
    if not desc.get("flat_actions", True):
        from .chk_modes import param_vector_for
        sp = {"os": list(sc.os), "services": list(sc.services), "processes": list(sc.processes)}
        flat = env.action_space.actions
        triples = [[param_vector_for(sp, flat[i]) for i in t] for t in triples]
    return triples


# ------------------------------------------------------------------------------------------- workers
CHILD = r"""
import sys, json
sys.path.insert(0, %r)
from mc.chk_isolation import solo_trace
t = json.load(sys.stdin)
tr, lt = solo_trace(t["desc"], t["acts"], t["sides"])
print("RESULT " + json.dumps({"trace": tr, "layout": lt}))
""" % VERIF


def fresh_solo(desc, acts, sides):
    import subprocess
    p = subprocess.run(["/venv/bin/python", "-c", CHILD], input=json.dumps({"desc": desc, "acts": acts, "sides": sides}),
                       capture_output=True, text=True, timeout=600)
    for line in p.stdout.splitlines():
        if line.startswith("RESULT "):
            r = json.loads(line[7:])
            return r["trace"], r["layout"]
    raise HarnessError("solo child failed: " + (p.stderr or p.stdout)[-400:])


def _pair_job(args):
    name, dA, dB, tA, tB, sides, scheds = args
    import_nasim()
    soloA, layA = fresh_solo(dA, tA, sides)
    soloB, layB = fresh_solo(dB, tB, sides)
    layouts_differ = layA != layB
    out = {"name": name, "runs": 0, "nontrivial": 0, "violations": [], "layouts_differ": layouts_differ,
           "outcomes": set()}
    kinds_seen = set()
    for seq, sw in scheds:
        trA, trB = run_schedule(dA, dB, tA, tB, sides, seq)
        out["runs"] += 1
        out["nontrivial"] += 1 if sw >= 1 else 0
        trA, trB = json.loads(json.dumps(trA)), json.loads(json.dumps(trB))
        out["outcomes"].add(hashlib.sha1(json.dumps([trA, trB]).encode()).hexdigest())
        for who, tr, solo in (("A", trA, soloA), ("B", trB, soloB)):
            if tr != solo:
                at = next((i for i, (x, y) in enumerate(zip(tr, solo)) if x != y), min(len(tr), len(solo)))
                op = PROGRAM[at] if at < len(PROGRAM) else "?"
                exc = tr[at][2] if at < len(tr) and tr[at][0] == "EXC" else None
                kind = "environment_interference:" + op + (":" + exc if exc else "")
                key = (who, kind)
                if key in kinds_seen:
                    continue
                kinds_seen.add(key)
                out["violations"].append({
                    "property": "C19", "kind": kind, "engine": "interleave", "pair": name,
                    "layouts_differ": layouts_differ, "victim": who, "schedule": seq, "switches": sw,
                    "descA": dA, "descB": dB, "actsA": tA, "actsB": tB, "sides": sides,
                    "detail": {"first_diverging_operation_index": at, "operation": op,
                               "interleaved": str(tr[at])[:300] if at < len(tr) else None,
                               "solo": str(solo[at])[:300] if at < len(solo) else None}})
    out["outcomes"] = len(out["outcomes"])
    return out


def run(pid, tier):
    t0 = time.time()
    import_nasim()
    max_sw = 3 if tier == "quick" else 5
    scheds = interleavings(len(PROGRAM), max_sw)
    if tier == "thorough":
        pass
    jobs = []
    for name, dA, dB in pairs(tier):
        tAs, tBs = action_triples(dA, tier), action_triples(dB, tier)
        if dA.get("same_triples") or dB.get("same_triples"):
            # both environments run the SAME plan (same action list by construction): the plans of both, one after the other
            tAs = tBs = (tAs + tBs)[: (8 if tier == "quick" else 16)]
        m = max(len(tAs), len(tBs))
        cap_sw = dA.get("max_switches")
        sch = scheds if (cap_sw is None or max_sw is None or cap_sw >= max_sw) else interleavings(len(PROGRAM), cap_sw)
        for i in range(m):
            tA, tB = tAs[i % len(tAs)], tBs[i % len(tBs)]
            for sides in (["below", "below", "below"], ["below", "above", "below"]):
                jobs.append((name, dA, dB, tA, tB, sides, sch))
    # split big schedule sets so that all cores are used
    split = []
    for j in jobs:
        if len(j[6]) > 400:
            for c in range(8):
                split.append(j[:6] + (j[6][c::8],))
        else:
            split.append(j)
    with mp.get_context("fork").Pool(processes=ncpu()) as pool:
        results = list(pool.imap_unordered(_pair_job, split, chunksize=1))
    violations = [v for r in results for v in r["violations"]]
    runs = sum(r["runs"] for r in results)
    per_pair = {}
    for r in results:
        d = per_pair.setdefault(r["name"], {"runs": 0, "layouts_differ": r["layouts_differ"], "distinct_outcomes": 0})
        d["runs"] += r["runs"]
        d["distinct_outcomes"] = max(d["distinct_outcomes"], r["outcomes"])
    cov = {
        "states": runs, "transitions": runs * 2 * len(PROGRAM), "traces_validated_against_impl": runs * 2,
        "evaluations": runs, "distinct_nontrivial": sum(r["nontrivial"] for r in results),
        "rule": RULE, "samples": [{"schedule": s, "switches": sw} for s, sw in rotate(scheds, 3)] + [{"program": PROGRAM}],
        "exhaustive": True, "pairs": per_pair, "interleavings_per_case": len(scheds),
        "switch_bound": "unbounded (all %d)" % len(scheds) if max_sw is None else max_sw,
        "bound": f"two {len(PROGRAM)}-operation programs, switch bound {max_sw}, 2 draw scripts, 1-3 action triples per pair",
        "note": "states = interleaved executions; each compared with two fresh-interpreter solo traces",
    }
    assume = ["solo reference traces are computed in fresh interpreters (the environment is the only one in its process)",
              "draws are scripted per step through the draw seam (same draws in solo and interleaved runs)"]
    return finish(pid, tier, cov, violations, assume, t0)


def replay(pid, rec):
    import_nasim()
    soloA, _ = fresh_solo(rec["descA"], rec["actsA"], rec["sides"])
    soloB, _ = fresh_solo(rec["descB"], rec["actsB"], rec["sides"])
    trA, trB = run_schedule(rec["descA"], rec["descB"], rec["actsA"], rec["actsB"], rec["sides"], rec["schedule"])
    trA, trB = json.loads(json.dumps(trA)), json.loads(json.dumps(trB))
    out = []
    if trA != soloA or trB != soloB:
        out.append({"kind": rec["kind"], "victim": "A" if trA != soloA else "B", "schedule": rec["schedule"]})
    return out
