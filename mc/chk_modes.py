"""C12 — observation and action modes do not change the dynamics.

Eight environments (fully/partially observable x flat/parameterised actions x 1D/2D observations) are built
per scenario.  Because generative_step takes the state explicitly, the 8-way comparison is made on EVERY
transition of the complete state graph (each env is given the same state, the same scripted draw and the
semantically identical action in ITS OWN action representation: flat index or parameter vector).
Then every BFS-spanning-tree history is run through reset()/step() in all 8 modes (scripted draws), and
again with the seam removed under real NumPy seeds.
"""
import itertools
import time

import numpy as np

from .common import HarnessError, import_nasim
from .chk_actions import action_fields
from .envobj import _info_canon
from .evidence import finish, rotate
from .model import CLASS_TO_TYPE
from .seams import draw_values
from .sweep import run_family

RULE = ("every (reachable state, flat action, draw side) executed by generative_step in all 8 mode combinations with "
        "the action in each mode's own representation; every BFS-tree history through step() in all 8 modes with "
        "scripted draws and with real seeds 0,1,2; non-trivial = state-changing or chance-decided transition compared 8-way")
MODES = list(itertools.product((False, True), (True, False), (True, False)))   # (fully_obs, flat_actions, flat_obs)


def param_vector_for(spec, a):
    typ = CLASS_TO_TYPE[type(a).__name__]
    tt = ["exploit", "privesc", "service_scan", "os_scan", "subnet_scan", "process_scan"]
    if typ not in tt:
        return None
    v = [tt.index(typ), int(a.target[0]) - 1, int(a.target[1]), 0, 0, 0]
    if typ in ("exploit", "privesc"):
        v[3] = 0 if a.os is None else spec["os"].index(a.os) + 1
    if typ == "exploit":
        v[4] = spec["services"].index(a.service)
    if typ == "privesc":
        v[5] = spec["processes"].index(a.process)
    return v


def post_explore(ctx, res, pids, opts):
    import_nasim()
    from nasim.envs import NASimEnv
    from nasim.envs.action import NoOp
    spec, seam = ctx.spec, ctx.seam
    counts = {"eightway_transitions": 0, "nontrivial": 0, "gen_steps": 0, "history_runs": 0, "seeded_runs": 0,
              "inexpressible_actions": 0, "skipped_large": 0}
    keys = list(res["seen"].keys())
    if (opts.get("max_states_modes") and len(keys) > opts["max_states_modes"]) or res.get("capped"):
        counts["skipped_large"] += 1
        return counts
    envs = [(m, NASimEnv(ctx.scenario, fully_obs=m[0], flat_actions=m[1], flat_obs=m[2])) for m in MODES]
    flat = ctx.actions[:-1]
    # each flat action in the representation of each action mode
    rep_flat, rep_param = [], []
    # expressibility is decided from the scenario TEXT, never by asking the space under test: an exploit /
    # escalation has a parameter vector iff it is the first definition for its (service|process, OS) pair
    first_e, first_p = {}, {}
    for n, e in spec["exploits"].items():
        first_e.setdefault((e["service"], e["os"]), n)
    for n, e in spec["privescs"].items():
        first_p.setdefault((e["process"], e["os"]), n)
    for i, a in enumerate(flat):
        rep_flat.append(i)
        vec = param_vector_for(spec, a)
        typ = CLASS_TO_TYPE[type(a).__name__]
        if typ == "exploit" and first_e.get((a.service, a.os)) != a.name:
            vec = None
        if typ == "privesc" and first_p.get((a.process, a.os)) != a.name:
            vec = None
        if vec is None:
            counts["inexpressible_actions"] += 1
        rep_param.append(vec)

    def rep_for(mode, i):
        if i == len(flat):
            return ctx.actions[i]            # the no-op has no index / vector: Action object
        if mode[1]:
            return rep_flat[i]
        return rep_param[i] if rep_param[i] is not None else None

    # ------------------------------------------------------------------ every transition, 8-way
    for s, key in zip(res["order"], keys):
        for i in range(len(ctx.actions)):
            mact = ctx.mactions[i]
            if mact is None:
                continue
            dv = draw_values(mact["prob"])
            for side in (("below",) if mact["type"] == "noop" else ("below", "above")):
                ref = None
                for mode, env in envs:
                    rep = rep_for(mode, i)
                    if rep is None:
                        continue
                    seam.arm(dv[side])
                    s2, obs, r, done, info = env.generative_step(s, rep)
                    counts["gen_steps"] += 1
                    got = (s2.tensor.tobytes(), float(r), bool(done), _info_canon(info), seam.calls)
                    if ref is None:
                        ref = (mode, got)
                    elif got != ref[1]:
                        names = ["next_state", "reward", "terminal", "info", "draws_consumed"]
                        diff = [n for n, x, y in zip(names, got, ref[1]) if x != y]
                        ctx.report("C12", "modes_disagree_on_transition:" + "+".join(diff), key=key,
                                   detail={"action_index": i, "action": str(ctx.actions[i]), "draw_side": side,
                                           "mode_a(fully_obs,flat_actions,flat_obs)": list(ref[0]), "mode_b": list(mode),
                                           "reward_a": ref[1][1], "reward_b": got[1], "differs": diff})
                        break
                counts["eightway_transitions"] += 1
                if ref is not None and (ref[1][0] != key or ref[1][4] > 0):
                    counts["nontrivial"] += 1

    # ------------------------------------------------------------------ histories through reset()/step()
    budget = opts.get("history_budget", 150)
    hkeys = keys if len(keys) <= budget else keys[:budget]
    hists = [ctx.history_of(k) for k in hkeys if ctx.history_of(k)]
    # extend each tree history by one final no-progress step to exercise the step-limit flag further
    def run_hist(env, mode, hist, scripted):
        fp = []
        env.reset()
        for a_idx, side in hist:
            rep = rep_for(mode, a_idx)
            if rep is None:
                return None
            if scripted:
                seam.arm(draw_values(ctx.mactions[a_idx]["prob"])[side])
            o, r, d, t, info = env.step(rep)
            fp.append((env.current_state.tensor.tobytes(), float(r), bool(d), bool(t), _info_canon(info), env.steps))
        return fp

    for hist in hists:
        ref = None
        for mode, env in envs:
            fp = run_hist(env, mode, hist, True)
            if fp is None:
                continue
            counts["history_runs"] += 1
            if ref is None:
                ref = (mode, fp)
            elif fp != ref[1]:
                at = next(j for j, (x, y) in enumerate(zip(fp, ref[1])) if x != y)
                names = ["state", "reward", "terminal", "step_limit_flag", "info", "steps"]
                diff = [n for n, x, y in zip(names, fp[at], ref[1][at]) if x != y]
                ctx.report("C12", "modes_disagree_on_step_history:" + "+".join(diff), key=None,
                           detail={"history": hist, "first_difference_at_step": at, "differs": diff,
                                   "mode_a": list(ref[0]), "mode_b": list(mode)})
                break
    # ------------------------------------------------------------------ same histories under real seeds
    seam.uninstall()
    try:
        for hist in hists[: opts.get("seeded_budget", 40)]:
            for seed in (0, 1, 2):
                ref = None
                for mode, env in envs:
                    np.random.seed(seed)
                    fp = run_hist(env, mode, hist, False)
                    if fp is None:
                        continue
                    counts["seeded_runs"] += 1
                    if ref is None:
                        ref = (mode, fp)
                    elif fp != ref[1]:
                        ctx.report("C12", "modes_disagree_under_the_same_numpy_seed", key=None,
                                   detail={"history": hist, "seed": seed, "mode_a": list(ref[0]), "mode_b": list(mode)})
                        break
    finally:
        seam.install()
    return counts


def run(pid, tier):
    t0 = time.time()
    opts = {"post": ["chk_modes"]}
    if tier == "quick":
        opts["max_states_modes"] = 300
    else:
        opts["history_budget"] = 600
        opts["seeded_budget"] = 150
        opts["max_states_modes"] = 4000
    agg, violations, errors = run_family(["C12"], tier, opts)
    if errors:
        raise HarnessError("; ".join(errors[:3]))
    ex = agg.get("extra", {}).get("chk_modes", {})
    if int(ex.get("eightway_transitions", 0)) == 0:
        raise HarnessError("vacuous C12 run")
    samples = [{"scenario": r[0], "binding": r[1], "flat_actions": r[3] - 1, "states": r[4]} for r in rotate(agg["per_scenario"], 4)]
    cov = {
        "states": agg["states"], "transitions": int(ex.get("eightway_transitions", 0)),
        "traces_validated_against_impl": int(ex.get("gen_steps", 0)),
        "evaluations": int(ex.get("gen_steps", 0)) + int(ex.get("history_runs", 0)) + int(ex.get("seeded_runs", 0)),
        "distinct_nontrivial": int(ex.get("nontrivial", 0)),
        "rule": RULE, "samples": samples,
        "exhaustive": int(ex.get("skipped_large", 0)) == 0,
        "scenarios": agg["scenarios"], "scenarios_skipped_over_300_states(quick)": int(ex.get("skipped_large", 0)),
        "generative_steps_compared": int(ex.get("gen_steps", 0)),
        "step_history_runs": int(ex.get("history_runs", 0)), "seeded_history_runs": int(ex.get("seeded_runs", 0)),
        "flat_actions_without_parameter_vector": int(ex.get("inexpressible_actions", 0)),
        "family_features": agg["features"],
        "bound": "complete graphs x 8 modes (quick: scenarios <= 300 states); BFS-tree histories (budget per scenario) "
                 "with scripted draws and NumPy seeds 0..2",
    }
    assume = ["an action is 'expressible in both spaces' when its parameter vector decodes back to the same action (exploits / escalations "
              "sharing a (service|process, OS) pair with an earlier definition are flat-only and compared among flat modes only)",
              "'every seed' is represented by scripted draws on both sides of every probability plus the real seeds 0,1,2"]
    # API programs driven with parameter vectors (one array object per action, reused) vs the same programs with flat
    # indices (mc/apiseq.py): a program that matches the state graph in flat mode must match it in parameterised mode
    from . import apiseq
    api_cov, api_viol = apiseq.check_part("C12", tier)
    cov["api_sequence_exploration"] = api_cov
    return finish(pid, tier, cov, [v for v in violations if v["property"] == "C12"] + api_viol, assume, t0)


def replay(pid, rec):
    if rec.get("engine") == "apiseq":
        from . import apiseq
        return apiseq.replay(rec)
    from .sweep import make_ctx
    from .explore import explore
    from .spec import spec_from_json
    spec = rec["scenario"]
    spec = spec_from_json(spec) if "subnets" in spec else spec
    ctx = make_ctx(spec, rec["binding"])
    from .sweep import replay_explore
    res = replay_explore(ctx)
    post_explore(ctx, res, ["C12"], {})
    return [v for v in ctx.violations if v["kind"] == rec["kind"]] or ctx.violations
