"""Explicit-state exploration of the REAL transition function NASimEnv.generative_step.

For one scenario: breadth-first search from the reset state; in every reachable state every action of
the flat action space (+ the no-op) is executed with the draw scripted on either side of the action's
probability.  The reference model is run in lock-step and handed to the armed oracles together with
the implementation's result.  State key = raw bytes of the full state tensor (no abstraction).
"""
import collections
import copy
import os

import numpy as np

from .common import HarnessError, import_nasim
from .layout import Layout
from .model import Model, CLASS_TO_TYPE
from .seams import DrawSeam, draw_values
from .spec import build_scenario, spec_to_json


def build_twin(spec):
    """environments (flat + parameterised actions) of the maximally different scenario with the SAME layout"""
    from nasim.envs import NASimEnv
    from .spec import to_scenario, all_addresses
    t = copy.deepcopy(spec)
    t["name"] = "verif"
    n = len(t["subnets"]) + 1
    t["topology"] = [[1] * n for _ in range(n)]
    t["firewall"] = {(i, j): list(t["services"]) for i in range(n) for j in range(n) if i != j}
    for k, a in enumerate(all_addresses(t)):
        h = t["hosts"][a]
        h["services"] = list(t["services"])
        h["processes"] = list(t["processes"])
        h["os"] = t["os"][(t["os"].index(h["os"]) + 1) % len(t["os"])] if h["os"] in t["os"] else t["os"][0]
        h["firewall"] = {}
        h["value"] = float(h.get("value", 0)) + 7
        h["discovery_value"] = float(h.get("discovery_value", 0)) + 3
    t["sensitive_hosts"] = {a: 1000 + k for k, a in enumerate(all_addresses(t))}
    for a in t["sensitive_hosts"]:
        t["hosts"][a].pop("value", None)
    for e in list(t["exploits"].values()) + list(t["privescs"].values()):
        e["cost"] = float(e["cost"]) * 3 + 1
        e["prob"] = 1.0
        e["access"] = 2
    t["scan_costs"] = {k: float(v) + 5 for k, v in t["scan_costs"].items()}
    t["step_limit"] = 7
    t["host_order"] = "sorted"
    sc = to_scenario(t)
    envs = [NASimEnv(sc, fully_obs=False, flat_actions=True, flat_obs=True),
            NASimEnv(sc, fully_obs=True, flat_actions=False, flat_obs=False)]
    for e in envs:
        e.reset()
    # use it a little: lazily built tables (exploit maps, masks, hop counts) get filled with the twin's content
    try:
        envs[0].get_action_mask()
        envs[0].get_score_upper_bound()
        envs[1].step(envs[1].action_space.sample())
        for i in range(min(12, int(envs[0].action_space.n))):
            envs[0].step(i)
        envs[0].reset()
    except Exception:
        pass
    return envs


class Tr:
    """one explored transition"""
    __slots__ = ("s", "key", "ms", "a_idx", "action", "mact", "side", "draw", "s2", "key2", "ms2",
                 "obs", "reward", "done", "info", "ndraws", "exp", "new_state", "obs_fo", "extra")

    def describe(self):
        return {"action_index": self.a_idx, "action": str(self.action), "draw_side": self.side,
                "draw": self.draw}


class Ctx:
    """everything about one scenario under exploration"""

    def __init__(self, spec, binding, seam=None, need_fo=False, scenario=None):
        nasim = import_nasim()
        from nasim.envs import NASimEnv
        from nasim.envs.action import NoOp
        self.spec = spec
        self.binding = binding
        self.name = spec.get("name", "?")
        self.scenario = scenario if scenario is not None else build_scenario(spec, binding)
        # every scenario explored in a worker carries the SAME name: a scenario's name is a label, not an
        # identity, so anything keyed by it (caches) must not change behaviour
        try:
            self.scenario.name = "verif"
        except Exception:
            pass
        self.env = NASimEnv(self.scenario, fully_obs=False, flat_actions=True, flat_obs=True)
        self.env_fo = NASimEnv(self.scenario, fully_obs=True, flat_actions=True, flat_obs=True) if need_fo else None
        # a maximally different TWIN of the same vector layout is built AFTER the environment under test and kept
        # alive during the whole exploration: other topology (everything public and connected), allow-all firewalls,
        # no host firewalls, every host runs everything, other values / costs / probabilities / sensitive hosts.
        # Environments are independent of each other (C19), so this must not change anything - but any state shared
        # through classes or modules (keyed by address, subnet number, scenario name ...) now shows up in EVERY
        # sweep-based check as a disagreement with the reference model.
        self.twin = None
        if "subnets" in spec and os.environ.get("VERIF_NO_TWIN") != "1":
            try:
                self.twin = build_twin(spec)
            except Exception:
                self.twin = None
        self.layout = Layout(spec)
        self.env.reset()
        # public QUERIES must not change behaviour: ask them all once before anything is explored
        for q in ("get_minimum_hops", "get_score_upper_bound", "get_action_mask", "goal_reached"):
            try:
                getattr(self.env, q)()
            except Exception:
                pass
        try:
            self.env.network.get_minimal_hops(); self.env.network.get_subnet_depths()
            self.env.network.get_total_sensitive_host_value(); self.env.network.get_total_discovery_value()
            self.scenario.get_description()
        except Exception:
            pass
        self.rows_ok = self.layout.bind_rows(self.env.current_state.tensor)
        self.rows_fallback = False
        if not self.rows_ok and "subnets" in spec:
            # rows cannot be identified from their address cells (a C09 matter, reported there). The dynamics
            # checks go on with the documented row order = order of the scenario's host listing, so that their
            # own oracles can still speak instead of giving up.
            try:
                order = [tuple(int(x) for x in a) for a in self.scenario.hosts.keys()]
                if sorted(order) == sorted(self.layout.addrs) and \
                        self.env.current_state.tensor.shape == (self.layout.nhosts, self.layout.width):
                    self.layout.addrs = order
                    self.layout.row_of = {a: i for i, a in enumerate(order)}
                    self.rows_ok = True
                    self.rows_fallback = True
            except Exception:
                pass
        self.model = Model(spec, self.layout.addrs)
        self.actions = list(self.env.action_space.actions) + [NoOp()]
        self.mactions = []
        self.unknown_actions = []
        for i, a in enumerate(self.actions):
            try:
                self.mactions.append(self.model.action_for_impl(a))
            except Exception as e:   # action the scenario text does not define (C11 matter)
                self.mactions.append(None)
                self.unknown_actions.append((i, str(a), repr(e)))
        self.seam = seam
        self.violations = []
        self.viol_counts = collections.Counter()
        self.stats = collections.Counter()
        self.nontrivial = collections.Counter()
        self.parent = {}
        self.ms_cache = {}
        self.samples = []

    # ------------------------------------------------------------------ violations
    def history_of(self, key):
        hist = []
        while key in self.parent and self.parent[key] is not None:
            pk, a_idx, side = self.parent[key]
            hist.append([a_idx, side])
            key = pk
        hist.reverse()
        return hist

    def report(self, pid, kind, tr=None, key=None, detail=None, cap=2):
        """record a violation (at most `cap` replayable records per (property, kind) per scenario)"""
        self.viol_counts[(pid, kind)] += 1
        if self.viol_counts[(pid, kind)] > cap:
            return
        k = tr.key if tr is not None else key
        rec = {
            "property": pid, "kind": kind, "engine": "sweep",
            "scenario": spec_to_json(self.spec), "binding": self.binding,
            "history": self.history_of(k) if k is not None else [],
            "transition": tr.describe() if tr is not None else None,
            "detail": detail,
        }
        self.violations.append(rec)

    def decode(self, key, tensor):
        ms = self.ms_cache.get(key)
        if ms is None:
            ms = self.layout.status(tensor)
            self.ms_cache[key] = ms
        return ms


def param_expressible(spec):
    """names of exploits / escalations that own a parameter vector: the first definition of each
    (service|process, OS) pair in scenario order (decided from the scenario text)"""
    first_e, first_p = {}, {}
    for n, e in spec["exploits"].items():
        first_e.setdefault((e["service"], e["os"]), n)
    for n, e in spec["privescs"].items():
        first_p.setdefault((e["process"], e["os"]), n)
    return set(first_e.values()), set(first_p.values())


def param_vector(spec, mact):
    tt = ["exploit", "privesc", "service_scan", "os_scan", "subnet_scan", "process_scan"]
    if mact["type"] not in tt:
        return None
    v = [tt.index(mact["type"]), mact["target"][0] - 1, mact["target"][1], 0, 0, 0]
    if mact["type"] in ("exploit", "privesc"):
        v[3] = 0 if mact["os"] is None else spec["os"].index(mact["os"]) + 1
    if mact["type"] == "exploit":
        v[4] = spec["services"].index(mact["service"])
    if mact["type"] == "privesc":
        v[5] = spec["processes"].index(mact["process"])
    return v


def plan_path_keys(ctx, cap=None):
    """state keys along the reference model's closure plan (every draw succeeding), by generative steps;
    with `cap`, `cap` evenly spaced states of the path (first and last included) are kept for expansion"""
    from .seams import draw_values as _dv
    ms, plan = ctx.model.closure_plan()
    idx = {}
    for i, m in enumerate(ctx.mactions):
        if m is not None:
            idx.setdefault((m["type"], m["name"], tuple(m["target"])), i)
    ctx.env.reset()
    s = ctx.env.current_state
    keys = [s.tensor.tobytes()]
    path = [(keys[0], s, None, None)]
    for act in plan:
        i = idx.get((act["type"], act["name"], tuple(act["target"])))
        if i is None:
            break
        ctx.seam.arm(_dv(act["prob"])["below"])
        s, _, _, _, _ = ctx.env.generative_step(s, ctx.actions[i])
        k = s.tensor.tobytes()
        if k != keys[-1]:
            path.append((k, s, keys[-1], i))
            keys.append(k)
    # full parent chain first (histories stay replayable), then the cap
    ctx.path_parents = {k: (pk, i, "below") for k, _, pk, i in path if pk is not None}
    ctx.path_plan = [idx[(a["type"], a["name"], tuple(a["target"]))] for a in plan
                     if (a["type"], a["name"], tuple(a["target"])) in idx]
    if cap is not None and len(path) > cap:
        # evenly spaced along the plan (first and last included): shallow, middle and deep states
        idxs = sorted({round(i * (len(path) - 1) / (cap - 1)) for i in range(cap)})
        path = [path[i] for i in idxs]
    ctx.path_states = [(k, st) for k, st, _, _ in path]
    return set(k for k, _, _, _ in path)


def explore(ctx, oracles, max_states=None, record_graph=False, action_rep="object", root_state=None, expand_only=None,
            reverse=False):
    """BFS over the implementation's reachable states. Returns dict with counts (and the graph).
    action_rep="param": every action is handed to a parameterised-action environment as its parameter
    vector (actions without a vector are skipped), so the decode path of that space is inside the loop."""
    if action_rep == "param":
        from nasim.envs import NASimEnv
        if getattr(ctx, "penv", None) is None:
            ctx.penv = NASimEnv(ctx.scenario, fully_obs=False, flat_actions=False, flat_obs=True)
        ctx.env_object = ctx.env
        ctx.env = ctx.penv
        ok_e, ok_p = param_expressible(ctx.spec)
        reps = []
        for m in ctx.mactions:
            if m is None or m["type"] == "noop":
                reps.append(None)
            elif m["type"] == "exploit" and m["name"] not in ok_e:
                reps.append(None)
            elif m["type"] == "privesc" and m["name"] not in ok_p:
                reps.append(None)
            else:
                reps.append(param_vector(ctx.spec, m))
    else:
        reps = list(ctx.actions)
    try:
        return _explore(ctx, oracles, max_states, record_graph, reps, root_state, expand_only, reverse)
    finally:
        if action_rep == "param":
            ctx.env = ctx.env_object


def _explore(ctx, oracles, max_states, record_graph, reps, root_state=None, expand_only=None, reverse=False):
    env, seam, model, layout = ctx.env, ctx.seam, ctx.model, ctx.layout
    if not ctx.rows_ok:
        raise HarnessError(f"{ctx.name}: initial tensor rows do not carry the scenario's addresses "
                           "(layout property C09 is broken; dynamic sweep cannot decode states)")
    env.reset()
    s0 = env.current_state if root_state is None else root_state
    key0 = s0.tensor.tobytes()
    ctx.parent[key0] = None
    seen = {key0: 0}
    order = [s0]
    frontier = collections.deque([(s0, key0)])
    n_trans = 0
    capped = False
    graph = {} if record_graph else None
    if expand_only is not None:
        # path-bounded mode: every kept state of the reference path is a seed of the exploration
        for k, pv in getattr(ctx, "path_parents", {}).items():
            ctx.parent.setdefault(k, pv)
        for k, st in getattr(ctx, "path_states", []):
            if k not in seen:
                seen[k] = len(seen)
                order.append(st)
                frontier.append((st, k))
    for o in oracles:
        o.on_scenario(ctx)
    sides = ("below", "above")
    pre_hooks = [o for o in oracles if hasattr(o, "pre_transition")]
    if expand_only is not None and root_state is None and getattr(ctx, "path_plan", None):
        # path-bounded mode, the zero-deviation execution: the whole reference plan as ONE continuous run from the
        # reset state, every step checked by every oracle (whatever the code remembers from step to step is in play,
        # which the expansion of individual kept states cannot show)
        ws, wkey = s0, key0
        for a_idx in ctx.path_plan:
            mact = ctx.mactions[a_idx]
            if reps[a_idx] is None:
                break
            wms = ctx.decode(wkey, ws.tensor)
            tr = Tr()
            tr.s, tr.key, tr.ms, tr.a_idx, tr.action, tr.mact = ws, wkey, wms, a_idx, ctx.actions[a_idx], mact
            tr.side, tr.draw = "below", draw_values(mact["prob"])["below"]
            tr.extra = None
            for o in pre_hooks:
                o.pre_transition(ctx, ws, wkey, tr.action, "below")
            seam.arm(tr.draw)
            s2, obs, reward, done, info = env.generative_step(ws, reps[a_idx])
            tr.ndraws = seam.calls
            tr.s2, tr.obs, tr.reward, tr.done, tr.info = s2, obs, reward, done, info
            tr.key2 = s2.tensor.tobytes()
            tr.new_state = False
            tr.ms2 = ctx.decode(tr.key2, s2.tensor)
            tr.exp = model.step(wms, mact, tr.draw)
            tr.obs_fo = None
            n_trans += 1
            ctx.parent.setdefault(tr.key2, (wkey, a_idx, "below"))
            for o in oracles:
                o.on_transition(ctx, tr)
            ws, wkey = s2, tr.key2
    while frontier:
        # reverse=True: deepest states first (anything the code remembers from deep states is then in place when
        # the shallow ones are expanded)
        s, key = frontier.pop() if reverse else frontier.popleft()
        ms = ctx.decode(key, s.tensor)
        for o in oracles:
            o.on_state(ctx, s, key, ms)
        for a_idx, action in enumerate(ctx.actions):
            mact = ctx.mactions[a_idx]
            if mact is None or reps[a_idx] is None:
                continue
            dv = draw_values(mact["prob"])
            pair = []
            for side in sides:
                if mact["type"] == "noop" and side == "above":
                    continue
                tr = Tr()
                tr.s, tr.key, tr.ms, tr.a_idx, tr.action, tr.mact = s, key, ms, a_idx, action, mact
                tr.side, tr.draw = side, dv[side]
                tr.extra = None
                for o in pre_hooks:
                    o.pre_transition(ctx, s, key, action, side)
                seam.arm(tr.draw)
                s2, obs, reward, done, info = env.generative_step(s, reps[a_idx])
                tr.ndraws = seam.calls
                tr.s2, tr.obs, tr.reward, tr.done, tr.info = s2, obs, reward, done, info
                tr.key2 = s2.tensor.tobytes()
                tr.new_state = tr.key2 not in seen
                tr.ms2 = ctx.decode(tr.key2, s2.tensor)
                tr.exp = model.step(ms, mact, tr.draw)
                tr.obs_fo = None
                n_trans += 1
                exp = tr.exp
                ctx.stats[(mact["type"],
                           "success" if exp.success else
                           ("chance_fail" if exp.chance_fail else
                            ("host_fail" if exp.host_fail else "gate:" + str(exp.gate))))] += 1
                for o in oracles:
                    o.on_transition(ctx, tr)
                pair.append(tr)
                if graph is not None:
                    graph.setdefault(key, []).append((a_idx, side, tr.key2, float(reward), bool(done),
                                                      bool(info.get("success"))))
                if tr.new_state and len(ctx.samples) < 2:
                    ctx.samples.append({"scenario": ctx.name, "binding": ctx.binding,
                                        "history_from_reset": ctx.history_of(key),
                                        "state_status(compromised,reachable,discovered,access)": [list(x) for x in ms],
                                        "action": str(action), "draw_side": side, "draw": tr.draw,
                                        "impl": {"success": bool(info["success"]), "reward": float(reward), "done": bool(done),
                                                 "next_status": [list(x) for x in tr.ms2]},
                                        "model": {"success": bool(exp.success), "value": float(exp.value),
                                                  "next_status": [list(x) for x in exp.state]}})
                if tr.new_state and expand_only is not None and tr.key2 not in expand_only:
                    pass                 # one-step deviation from the reference path: executed and checked, not expanded
                elif tr.new_state:
                    if max_states is not None and len(seen) >= max_states:
                        capped = True
                    else:
                        seen[tr.key2] = len(seen)
                        ctx.parent[tr.key2] = (key, a_idx, side)
                        order.append(s2)
                        frontier.append((s2, tr.key2))
            if len(pair) == 2:
                for o in oracles:
                    o.on_pair(ctx, pair[0], pair[1])
    for o in oracles:
        o.on_done(ctx, seen, order)
    return {"states": len(seen), "transitions": n_trans, "capped": capped, "graph": graph,
            "seen": seen, "order": order}


class Oracle:
    pid = None

    def on_scenario(self, ctx): pass
    def on_state(self, ctx, s, key, ms): pass
    def on_transition(self, ctx, tr): pass
    def on_pair(self, ctx, below, above): pass
    def on_done(self, ctx, seen, order): pass


def replay_history(ctx, history):
    """Re-run a recorded history (list of [action index, draw side]) with generative steps from the
    reset state; returns the State reached. Divergence from a recorded key is the caller's business."""
    env, seam = ctx.env, ctx.seam
    env.reset()
    s = env.current_state
    for a_idx, side in history:
        mact = ctx.mactions[a_idx]
        seam.arm(draw_values(mact["prob"])[side])
        s, _, _, _, _ = env.generative_step(s, ctx.actions[a_idx])
    return s
