"""C18 — malformed scenario files are rejected.

A catalogue with one mutation operator per rule named in the property statement is applied at EVERY
applicable site of every base document (each exploit, each host, each firewall rule, each topology
cell ...).  Each mutant breaks exactly one documented rule; the real loader must raise.
Harness preconditions (else exit 2): the base document loads, the mutant differs from the base.
"""
import copy
import multiprocessing as mp
import time

import yaml

from .common import HarnessError, import_nasim, ncpu
from .evidence import finish, rotate
from .family import family, SHIPPED_ALL, shipped_path
from .spec import dump_yaml, load_yaml_text_with_nasim, to_yaml_doc, yaml_expressible

RULE = ("catalogue of single-rule faults x every applicable site x base documents (9 shipped + family slice); "
        "non-trivial = distinct (rule, site, base) mutant that differs from its loadable base")

REQUIRED = ["subnets", "topology", "sensitive_hosts", "os", "services", "processes", "exploits",
            "privilege_escalation", "service_scan_cost", "subnet_scan_cost", "os_scan_cost", "process_scan_cost",
            "host_configurations", "firewall"]
WRONG_TYPE = {list: {"a": 1}, dict: [1, 2], (int, float): "cheap"}
TYPES = {"subnets": list, "topology": list, "sensitive_hosts": dict, "os": list, "services": list, "processes": list,
         "exploits": dict, "privilege_escalation": dict, "service_scan_cost": (int, float),
         "subnet_scan_cost": (int, float), "os_scan_cost": (int, float), "process_scan_cost": (int, float),
         "host_configurations": dict, "firewall": dict}


def _dup_variants(lst):
    """all ways of duplicating one element of lst at another position (adjacent, front, back, ...)"""
    out = []
    seen = set()
    for i in range(len(lst)):
        for j in range(len(lst) + 1):
            new = list(lst)
            new.insert(j, lst[i])
            key = (tuple(map(str, new)))
            if key not in seen:
                seen.add(key)
                out.append(new)
    return out


def mutants(doc):
    """yield (rule, site, mutant_doc)"""
    def mk():
        return copy.deepcopy(doc)

    # ---- sections: missing / unknown / mistyped
    for k in REQUIRED:
        m = mk(); del m[k]
        yield ("missing_section", k, m)
        m = mk(); m[k] = copy.deepcopy(WRONG_TYPE[TYPES[k]])
        yield ("mistyped_section", k, m)
    for k in ("os", "services", "processes"):
        # a bare scalar where a list is required (what `os: linux` instead of `os: [linux]` parses to)
        if isinstance(doc.get(k), list) and doc[k]:
            m = mk(); m[k] = doc[k][0]
            yield ("mistyped_section", f"{k} = bare scalar {doc[k][0]!r}", m)
    m = mk(); m["bandwidth"] = 3
    yield ("unknown_section", "bandwidth", m)
    if "step_limit" in doc:
        m = mk(); m["step_limit"] = "many"
        yield ("mistyped_section", "step_limit", m)
    # ---- subnets
    for name, val in (("empty", []), ("zero", None), ("negative", None), ("fraction", None)):
        m = mk()
        if name == "empty":
            m["subnets"] = []
        else:
            m["subnets"][0] = {"zero": 0, "negative": -1, "fraction": 1.5}[name]
        yield ("subnets_" + name, "subnets[0]", m)
    # ---- topology
    n = len(doc["topology"])
    m = mk(); m["topology"] = m["topology"][:-1]
    yield ("topology_row_missing", "last row", m)
    m = mk(); m["topology"].append([0] * n)
    yield ("topology_extra_row", "appended row", m)
    for i in range(n):
        m = mk(); m["topology"][i] = m["topology"][i][:-1]
        yield ("topology_row_short", f"row {i}", m)
        m = mk(); m["topology"][i] = m["topology"][i] + [0]
        yield ("topology_row_long", f"row {i}", m)
        for j in range(n):
            for bad in (2, -1, "1"):
                m = mk(); m["topology"][i][j] = bad
                yield ("topology_cell_not_0_or_1", f"cell ({i},{j}) = {bad!r}", m)
    # ---- name lists
    for k in ("os", "services", "processes"):
        m = mk(); m[k] = []
        yield ("empty_list", k, m)
        for v in _dup_variants(doc[k]):
            m = mk(); m[k] = v
            yield ("duplicated_name", f"{k} = {v}", m)
    # ---- sensitive hosts
    nsub = len(doc["subnets"])
    sens = list(doc["sensitive_hosts"].items())
    m = mk(); m["sensitive_hosts"] = {}
    yield ("no_sensitive_host", "sensitive_hosts = {}", m)
    for a, v in sens:
        s, h = eval(a)
        for bad_addr, why in ((f"({nsub + 1}, 0)", "subnet out of range"), ("(0, 0)", "internet subnet"),
                              (f"({s}, {doc['subnets'][s - 1]})", "host out of range"), (f"({s}, -1)", "negative host")):
            m = mk()
            m["sensitive_hosts"] = {(bad_addr if k == a else k): vv for k, vv in doc["sensitive_hosts"].items()}
            yield ("sensitive_host_invalid_address", f"{a} -> {bad_addr} ({why})", m)
        m = mk(); m["sensitive_hosts"][f"({s},{h})"] = v      # second spelling of the same address
        yield ("sensitive_host_duplicate", f"{a} and ({s},{h})", m)
        for bad in (0, -1, "x"):
            m = mk(); m["sensitive_hosts"][a] = bad
            yield ("sensitive_host_value_not_positive", f"{a}: {bad!r}", m)
    # ---- exploits / escalations
    for sect, tgt_key, pool in (("exploits", "service", "services"), ("privilege_escalation", "process", "processes")):
        for name, e in doc[sect].items():
            for fld in (tgt_key, "os", "prob", "cost", "access"):
                m = mk(); del m[sect][name][fld]
                yield ("action_missing_field", f"{sect}.{name}.{fld}", m)
            m = mk(); m[sect][name][tgt_key] = "telnet_unknown"
            yield ("action_unknown_" + tgt_key, f"{sect}.{name}", m)
            m = mk(); m[sect][name]["os"] = "amiga_unknown"
            yield ("action_unknown_os", f"{sect}.{name}", m)
            for bad in (-0.1, 1.5):
                m = mk(); m[sect][name]["prob"] = bad
                yield ("action_probability_outside_0_1", f"{sect}.{name}.prob = {bad}", m)
            for bad in (0, -1):
                m = mk(); m[sect][name]["cost"] = bad
                yield ("action_cost_not_positive", f"{sect}.{name}.cost = {bad}", m)
            for bad in (0, 3, "admin"):
                m = mk(); m[sect][name]["access"] = bad
                yield ("action_invalid_access", f"{sect}.{name}.access = {bad!r}", m)
            m = mk(); m[sect][name] = [1, 2]
            yield ("action_not_a_mapping", f"{sect}.{name}", m)
    # ---- scan costs
    for k in ("service_scan_cost", "os_scan_cost", "subnet_scan_cost", "process_scan_cost"):
        m = mk(); m[k] = -1
        yield ("negative_scan_cost", k, m)
    # ---- host configurations
    hosts = list(doc["host_configurations"].items())
    m = mk(); m["host_configurations"]["(1, 99)"] = copy.deepcopy(hosts[0][1])
    yield ("superfluous_host", "(1, 99)", m)
    for a, cfg in hosts:
        m = mk(); del m["host_configurations"][a]
        yield ("missing_host", a, m)
        m = mk()
        m["host_configurations"] = {("(1, 99)" if k == a else k): v for k, v in doc["host_configurations"].items()}
        yield ("host_address_wrong", f"{a} -> (1, 99)", m)
        for fld in ("os", "services", "processes"):
            m = mk(); del m["host_configurations"][a][fld]
            yield ("host_missing_field", f"{a}.{fld}", m)
        m = mk(); m["host_configurations"][a]["services"] = list(cfg["services"]) + ["telnet_unknown"]
        yield ("host_unknown_service", a, m)
        m = mk(); m["host_configurations"][a]["processes"] = list(cfg["processes"]) + ["cron_unknown"]
        yield ("host_unknown_process", a, m)
        m = mk(); m["host_configurations"][a]["os"] = "amiga_unknown"
        yield ("host_unknown_os", a, m)
        for v in _dup_variants(cfg["services"]):
            m = mk(); m["host_configurations"][a]["services"] = v
            yield ("host_duplicated_service", f"{a}: {v}", m)
        for v in _dup_variants(cfg["processes"]):
            m = mk(); m["host_configurations"][a]["processes"] = v
            yield ("host_duplicated_process", f"{a}: {v}", m)
        m = mk(); m["host_configurations"][a]["firewall"] = ["ssh"]
        yield ("host_firewall_not_a_mapping", a, m)
        other = [k for k, _ in hosts if k != a]
        src = other[0] if other else a
        srv0 = doc["services"][0]
        for bad_src in ("(9, 9)", "abc", "(1, 0, 0)", f"({nsub + 1}, 0)", f"(1, {doc['subnets'][0]})"):
            m = mk(); m["host_configurations"][a]["firewall"] = {bad_src: [srv0]}
            yield ("host_firewall_bad_source_address", f"{a}: {bad_src}", m)
        m = mk(); m["host_configurations"][a]["firewall"] = {src: srv0}
        yield ("host_firewall_rule_not_a_list", a, m)
        m = mk(); m["host_configurations"][a]["firewall"] = {src: [srv0, "telnet_unknown"]}
        yield ("host_firewall_unknown_service", a, m)
        for v in _dup_variants(list(doc["services"])):
            m = mk(); m["host_configurations"][a]["firewall"] = {src: v}
            yield ("host_firewall_duplicated_service", f"{a}: {v}", m)
        m = mk(); m["host_configurations"][a]["value"] = "x"
        yield ("host_value_not_numeric", a, m)
        if a in doc["sensitive_hosts"]:
            decl = doc["sensitive_hosts"][a]
            for bad in (decl + 1, 0, -decl, decl * 0.5):
                for with_fw in (False, True):
                    m = mk(); m["host_configurations"][a]["value"] = bad
                    if with_fw:
                        m["host_configurations"][a]["firewall"] = {src: [srv0]}
                    elif "firewall" in m["host_configurations"][a]:
                        del m["host_configurations"][a]["firewall"]
                    yield ("host_value_contradicts_sensitive_declaration",
                           f"{a}: value {bad} vs declared {decl}" + (" (with host firewall)" if with_fw else ""), m)
    # ---- subnet firewall
    for k, v in doc["firewall"].items():
        a, b = eval(k)
        alt = f"({a},{b})" if k != f"({a},{b})" else f"({a},  {b})"
        other = [x for x in doc["services"] if x not in v][:1] or []
        m = mk(); m["firewall"][alt] = list(other)          # the same rule a second time, under another spelling
        yield ("firewall_rule_duplicated", f"{k} and {alt}", m)
        if doc["topology"][a][b] == 1 or doc["topology"][b][a] == 1:       # only a rule the topology requires can be "missing"
            m = mk(); del m["firewall"][k]
            yield ("firewall_rule_missing", k, m)
        m = mk(); m["firewall"][k] = doc["services"][0]
        yield ("firewall_rule_not_a_list", k, m)
        m = mk(); m["firewall"][k] = list(v) + ["telnet_unknown"]
        yield ("firewall_rule_unknown_service", k, m)
        for dv in _dup_variants(list(doc["services"])):
            m = mk(); m["firewall"][k] = dv
            yield ("firewall_rule_duplicated_service", f"{k}: {dv}", m)
    # ---- step limit
    for bad in (0, -3):
        m = mk(); m["step_limit"] = bad
        yield ("step_limit_not_positive", f"step_limit = {bad}", m)


def base_documents(tier):
    docs = []
    for n in SHIPPED_ALL:
        with open(shipped_path(n)) as f:
            docs.append((n, yaml.safe_load(f)))
    fam = [sp for sp, b in family("quick") if b == "yaml" and yaml_expressible(sp)]
    fam = [sp for sp in fam if sp["name"].startswith(("corner", "pw-"))]
    limit = 30 if tier == "quick" else 300
    seen = set()
    for sp in fam:
        if sp["name"] in seen:
            continue
        seen.add(sp["name"])
        docs.append((sp["name"], to_yaml_doc(sp)))
        if len(seen) >= limit:
            break
    from .family import scale_documents
    for sp in scale_documents():
        docs.append((sp["name"], to_yaml_doc(sp)))
    # documents that ALSO carry a (well-formed) rule for two subnets the topology does not connect: nothing forbids
    # it, and every rule that is written down has to be a list of known, non-repeated services
    extra = 0
    for nm, d in list(docs):
        if extra >= 4 or nm in SHIPPED_ALL:
            continue
        topo = d["topology"]
        pair = next(((i, j) for i in range(1, len(topo)) for j in range(1, len(topo)) if i < j and topo[i][j] == 0), None)
        if pair is None:
            continue
        d2 = copy.deepcopy(d)
        d2["firewall"][str(pair)] = [d["services"][0]]
        d2["firewall"][str((pair[1], pair[0]))] = []
        docs.append((nm + "+rule-for-unconnected-subnets", d2))
        extra += 1
    if tier == "thorough":
        for sp, b in family("thorough"):
            if b == "yaml" and yaml_expressible(sp) and sp["name"] not in seen and len(seen) < limit:
                seen.add(sp["name"])
                docs.append((sp["name"], to_yaml_doc(sp)))
    return docs


def _loads(doc, name):
    try:
        load_yaml_text_with_nasim(dump_yaml(doc), name=name)
        return True, None
    except Exception as e:
        return False, type(e).__name__


def _run_base(args):
    name, doc = args
    import_nasim()
    out = {"name": name, "mutants": 0, "violations": [], "harness": None, "rules": {}, "exc": {}, "samples": []}
    ok, exc = _loads(copy.deepcopy(doc), name)
    if not ok:
        out["harness"] = f"base document {name} does not load ({exc})"
        return out
    base_txt = dump_yaml(doc)
    for rule, site, m in mutants(doc):
        if dump_yaml(m) == base_txt:
            out["harness"] = f"mutant equals base: {name} {rule} {site}"
            return out
        out["mutants"] += 1
        out["rules"][rule] = out["rules"].get(rule, 0) + 1
        ok, exc = _loads(m, name)
        if ok:
            out["violations"].append({"property": "C18", "kind": "malformed_document_accepted:" + rule,
                                      "engine": "loader", "scenario_name": name, "rule": rule, "site": site,
                                      "detail": {"rule": rule, "site": site}, "document": dump_yaml(m)})
        else:
            out["exc"][exc] = out["exc"].get(exc, 0) + 1
            if len(out["samples"]) < 2:
                out["samples"].append({"base": name, "rule": rule, "site": site, "rejected_with": exc})
    return out


def run(pid, tier):
    t0 = time.time()
    bases = base_documents(tier)
    n = ncpu()
    with mp.get_context("fork").Pool(processes=n) as pool:
        results = pool.map(_run_base, bases, chunksize=1)
    for r in results:
        if r["harness"]:
            raise HarnessError(r["harness"])
    total = sum(r["mutants"] for r in results)
    rules, excs = {}, {}
    for r in results:
        for k, v in r["rules"].items():
            rules[k] = rules.get(k, 0) + v
        for k, v in r["exc"].items():
            excs[k] = excs.get(k, 0) + v
    violations = [v for r in results for v in r["violations"]]
    # one replay per (rule) is enough to report; keep them all counted
    seen, uniq = set(), []
    for v in violations:
        if (v["rule"], v["scenario_name"]) in seen:
            continue
        seen.add((v["rule"], v["scenario_name"]))
        uniq.append(v)
    samples = rotate([s for r in results for s in r["samples"]], 4)
    cov = {
        "states": total, "transitions": total, "traces_validated_against_impl": total,
        "evaluations": total, "distinct_nontrivial": total, "rule": RULE, "samples": samples, "exhaustive": True,
        "base_documents": len(bases), "mutants": total, "mutants_per_rule": dict(sorted(rules.items())),
        "rejections_by_exception_type": excs, "accepted_malformed_total": len(violations),
        "bound": "every operator of the catalogue at every applicable site of every base document",
        "note": "states/transitions = mutant documents loaded",
    }
    assume = ["any exception type counts as 'raises an error'",
              "each operator breaks a rule that the property statement names; rules the statement does not name (e.g. a host without services) are not in the catalogue"]
    return finish(pid, tier, cov, uniq[:40], assume, t0)


def replay(pid, rec):
    import_nasim()
    try:
        load_yaml_text_with_nasim(rec["document"], name="replay")
    except Exception:
        return []
    return [{"kind": rec.get("kind"), "detail": "malformed document still accepted", "rule": rec.get("rule"), "site": rec.get("site")}]
