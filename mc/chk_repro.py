"""C14 — seeded runs and seeded generation are reproducible.

(a) set-iteration-order exploration: the generator is run with its `set` replaced by a set whose iteration
    order the explorer decides; every materialisation of a set is a choice point (all permutations for
    <=3 elements, reversed + rotations otherwise), at most 1 (thorough: 2) materialisations per run get a
    non-default order.  This decides "for every value of PYTHONHASHSEED" for the mechanism through which
    the hash seed can act on code that uses the name `set`.
(b) cross-process differential: scenario fingerprints recomputed in fresh interpreters under several
    PYTHONHASHSEED values (catches hash dependence that does not go through the name `set`).
(c) generation call histories: every sequence (length <= 3) of benchmark-generation calls over a small
    alphabet {(name, seed a), (name, seed b), (name, unseeded after np.random.seed(7))}, each history in a
    fresh interpreter; every call's result must equal the fresh-process result of that call alone.
(d) trajectories: BFS-tree histories and all histories up to depth 2 of a family slice run twice in-process
    and once in a fresh interpreter under real NumPy seeds; bit-identical observations / rewards / flags.
"""
import contextlib
import hashlib
import io
import itertools
import json
import multiprocessing as mp
import os
import subprocess
import sys
import time

import numpy as np

from .common import HarnessError, import_nasim, ncpu, VERIF
from .evidence import finish, rotate
from . import genexplore as gx
from .chk_generator import grid, realise, benchmark_param_sets
from .spec import spec_from_scenario, spec_fingerprint

RULE = ("(a) generator param sets x seeds x set-iteration orders (<=1 non-default materialisation; 2 in thorough); "
        "(b) 9 benchmark sets x seeds under PYTHONHASHSEED 0,1,2,3,random in fresh interpreters; (c) all generation-call "
        "histories of length <=3 over a 3-call alphabet, fresh interpreter each; (d) seeded trajectories twice in-process "
        "+ once in a fresh interpreter; non-trivial = run with a non-default set order / a non-zero hash seed / a "
        "history of >= 2 calls / a trajectory with a chance-decided action")


def fp_scenario(sc):
    return hashlib.sha1(spec_fingerprint(spec_from_scenario(sc, name="x")).encode()).hexdigest()


# ------------------------------------------------------------------------------------------- (a)
def order_alternatives(n):
    if n < 2:
        return []
    if n <= 3:
        return [list(p) for p in itertools.permutations(range(n))][1:]
    return ["reversed"] + [f"rot{k}" for k in range(1, n)]


def _order_job(args):
    params, max_dev = args
    import_nasim()
    out = {"runs": 0, "nontrivial": 0, "violations": [], "order_points": 0}
    run0, sc0, exc0 = gx.execute(params)
    out["runs"] += 1
    if exc0 is not None or sc0 is None:
        gx.uninstall()
        return out          # termination / exceptions: C15's matter
    base = fp_scenario(sc0)
    out["order_points"] = len(run0.order_points)
    pts = [(i, n) for i, n in enumerate(run0.order_points) if n >= 2]
    scheds = [{i: alt} for i, n in pts for alt in order_alternatives(n)]
    if max_dev >= 2:
        for (i, n), (j, m) in itertools.combinations(pts, 2):
            for a in order_alternatives(n)[:2]:
                for b in order_alternatives(m)[:2]:
                    scheds.append({i: a, j: b})
    for orders in scheds:
        run, sc, exc = gx.execute(params, orders=orders)
        out["runs"] += 1
        out["nontrivial"] += 1
        if exc is not None or sc is None or fp_scenario(sc) != base:
            if len(out["violations"]) < 2:
                out["violations"].append({"property": "C14", "kind": "generated_scenario_depends_on_set_iteration_order",
                                          "engine": "set_order", "params": dict(params),
                                          "orders": {str(k): v for k, v in orders.items()},
                                          "detail": {"materialisation_sizes": run0.order_points,
                                                     "result": "exception/none" if sc is None else "different scenario"}})
    gx.uninstall()
    return out


# ------------------------------------------------------------------------------------------- (b) (c) (d) child code
CHILD = r"""
import sys, json, hashlib
sys.path.insert(0, %r)
import numpy as np
from mc.common import import_nasim
nasim = import_nasim()
from mc.chk_repro import fp_scenario, child_dispatch
print("RESULT " + json.dumps(child_dispatch(json.load(sys.stdin))))
""" % VERIF


def child_dispatch(task):
    nasim = import_nasim()
    kind = task["kind"]
    if kind == "gen_fps":
        out = {}
        for name, seed in task["items"]:
            out[f"{name}|{seed}"] = fp_scenario(nasim.make_benchmark_scenario(name, seed=seed))
        for i, params in enumerate(task.get("params", [])):
            out[f"params{i}"] = fp_scenario(nasim.generate_scenario(**params))
        return out
    if kind == "history":
        res = []
        for name, seed in task["calls"]:
            if seed is None:
                np.random.seed(7)
            res.append(fp_scenario(nasim.make_benchmark_scenario(name, seed=seed)))
        return res
    if kind == "trajectories":
        return run_trajectories(task["entries"], task["seeds"])
    raise ValueError(kind)


def spawn_child(task, hashseed=None, timeout=600):
    env = dict(os.environ)
    if hashseed is not None:
        env["PYTHONHASHSEED"] = str(hashseed)
    else:
        env.pop("PYTHONHASHSEED", None)
    p = subprocess.run(["/venv/bin/python", "-c", CHILD], input=json.dumps(task), capture_output=True, text=True,
                       env=env, timeout=timeout)
    for line in p.stdout.splitlines():
        if line.startswith("RESULT "):
            return json.loads(line[7:])
    raise HarnessError("child interpreter failed: " + (p.stderr or p.stdout)[-500:])


def _spawn_star(a):
    return spawn_child(*a)


# ------------------------------------------------------------------------------------------- (d) trajectories
def run_trajectories(entries_json, seeds):
    """for each family entry: BFS-tree histories + all histories of depth <= 2, under real NumPy seeds.
    returns {key: sha1 of the concatenated step results}"""
    from .sweep import entry_from_json, make_ctx
    from .explore import explore
    from .envobj import _info_canon
    out = {}
    for ej in entries_json:
        spec, binding = entry_from_json(ej)
        ctx = make_ctx(spec, binding)
        big = ctx.layout.nhosts > 8
        res = explore(ctx, [], max_states=(40 if big else 200))
        hists = [ctx.history_of(k) for k in list(res["seen"].keys())[: (25 if big else 60)]]
        n_act = len(ctx.actions) - 1
        stoch = [i for i, m in enumerate(ctx.mactions[:n_act]) if m and 0.0 < m["prob"] < 1.0]
        # one exploit per subnet (first host) as well: actions that are refused right after a reset unless the
        # environment remembers something from an earlier episode
        per_subnet = {}
        for i, m in enumerate(ctx.mactions[:n_act]):
            if m and m["type"] == "exploit" and m["target"][1] == 0:
                per_subnet.setdefault(m["target"][0], i)
        base = list(dict.fromkeys(list(per_subnet.values())[:5] + stoch[:3] + list(range(n_act))[:2]))[:8]
        hists += [[[a, "r"]] for a in base] + [[[a, "r"], [b, "r"]] for a in base for b in base]
        # every BFS-tree history extended by one more exploit on the first host of each subnet (mostly refused:
        # what decides the refusal must be the state, not what the environment remembers from earlier episodes)
        probes = [i for i, m in enumerate(ctx.mactions[:n_act]) if m and m["type"] == "exploit" and m["target"][1] == 0][:30]
        tree = [h for h in hists[: (25 if big else 20)] if h and all(x[1] != "r" for x in h)]
        hists += [h + [[a, "r"]] for h in tree for a in probes]
        # a FRESH environment runs the trajectories (the one used for the exploration above has already executed
        # thousands of generative steps)
        from nasim.envs import NASimEnv as _Env
        tenv = _Env(ctx.scenario, fully_obs=False, flat_actions=True, flat_obs=True)
        ctx.seam.uninstall()
        try:
            life = list(seeds) + list(seeds)[:2]          # e.g. 0,1,2,0,1: the same seed again later in the env's life
            for pos, seed in enumerate(life):
                h = hashlib.sha1()
                np.random.seed(seed)
                n_chance = 0
                for hn, hist in enumerate(hists):
                    tenv.reset()
                    for a_idx, _ in hist:
                        if hn < 12:
                            # the same observer calls in every life: looking at the environment is not an action
                            try:
                                with contextlib.redirect_stdout(io.StringIO()):
                                    tenv.render_state("ansi")
                                    tenv.render_obs("ansi")
                            except Exception:
                                pass
                        o, r, d, t, info = tenv.step(int(a_idx))
                        h.update(np.asarray(o).tobytes())
                        h.update(repr((float(r), bool(d), bool(t), sorted(_info_canon(info).items()))).encode())
                        if ctx.mactions[a_idx] and 0.0 < ctx.mactions[a_idx]["prob"] < 1.0:
                            n_chance += 1
                k = f"{ej['spec'].get('name')}|{binding}|seed{seed}"
                if k in out and out[k][0] != h.hexdigest():
                    out[k] = ["differs-within-one-environment:" + out[k][0] + "/" + h.hexdigest(), n_chance]
                elif k not in out:
                    out[k] = [h.hexdigest(), n_chance]
        finally:
            ctx.seam.install()
    return out


class Tripwire:
    """counts calls to entropy sources that a NumPy seed does not control"""

    def __init__(self):
        import random
        self.calls = {}
        self._saved = []
        for mod, names in ((random, ["random", "randint", "choice", "uniform", "shuffle", "sample", "randrange"]),
                           (os, ["urandom"]), (np.random, ["default_rng"])):
            for n in names:
                orig = getattr(mod, n)
                self._saved.append((mod, n, orig))
                setattr(mod, n, self._wrap(f"{mod.__name__}.{n}", orig))

    def _wrap(self, label, fn):
        def w(*a, **k):
            f = sys._getframe(1)
            depth = 0
            while f is not None and depth < 12:
                if os.sep + "nasim" + os.sep in f.f_code.co_filename:
                    self.calls[label] = self.calls.get(label, 0) + 1
                    break
                f = f.f_back
                depth += 1
            return fn(*a, **k)
        return w

    def close(self):
        for mod, n, orig in self._saved:
            setattr(mod, n, orig)


def run(pid, tier):
    t0 = time.time()
    import_nasim()
    from .family import family
    from .sweep import entry_to_json
    violations = []
    n_cpu = ncpu()
    # ---------------- (a)
    rows = grid("quick")
    seeds = (0, 1) if tier == "quick" else (0, 1, 2, 3)
    jobs = [(realise(r, s), 1 if tier == "quick" else 2) for r in rows for s in seeds]
    for name, q in benchmark_param_sets():
        for s in ((0, 1) if tier == "quick" else range(6)):
            p = dict(q); p["seed"] = s
            jobs.append((p, 1))
    with mp.get_context("fork").Pool(processes=n_cpu) as pool:
        res_a = list(pool.imap_unordered(_order_job, jobs, chunksize=2))
    violations += [v for r in res_a for v in r["violations"]]
    runs_a = sum(r["runs"] for r in res_a)
    nontriv_a = sum(r["nontrivial"] for r in res_a)
    # ---------------- (b)
    bench = [n for n, _ in benchmark_param_sets()]
    bseeds = list(range(0, 6)) if tier == "quick" else list(range(0, 25))
    items = [(n, s) for n in bench for s in bseeds]
    extra_params = [realise(r, 0) for r in rows[:10] if r["alpha_V"] != 1.0 and r["num_privescs"] in ("none", "one")]
    chunks = [items[i::4] for i in range(4)]
    hash_seeds = [0, 1, 2, 3, "random"]
    tasks = [({"kind": "gen_fps", "items": ch, "params": extra_params if ci == 0 else []}, hs)
             for hs in hash_seeds for ci, ch in enumerate(chunks)]
    with mp.get_context("fork").Pool(processes=min(n_cpu, len(tasks))) as pool:
        res_b = pool.map(_spawn_star, tasks)
    by_hs = {}
    for (task, hs), r in zip(tasks, res_b):
        by_hs.setdefault(hs, {}).update(r)
    ref = by_hs[hash_seeds[0]]
    for hs, d in by_hs.items():
        for k, v in d.items():
            if ref.get(k) != v:
                violations.append({"property": "C14", "kind": "generated_scenario_differs_between_processes",
                                   "engine": "hashseed_differential", "case": k,
                                   "detail": {"PYTHONHASHSEED": [hash_seeds[0], hs], "case": k}})
    n_b = sum(len(d) for d in by_hs.values())
    # in-process agreement with the fresh interpreters (and repetition in-process)
    import nasim
    for (n, s) in items[:: max(1, len(items) // 12)]:
        a = fp_scenario(nasim.make_benchmark_scenario(n, seed=s))
        b = fp_scenario(nasim.make_benchmark_scenario(n, seed=s))
        if a != b or a != ref.get(f"{n}|{s}"):
            violations.append({"property": "C14", "kind": "seeded_generation_not_repeatable_in_process",
                               "engine": "in_process", "case": f"{n}|{s}",
                               "detail": {"first==second": a == b, "first==fresh_process": a == ref.get(f"{n}|{s}")}})
    # ---------------- (c)
    alphabet = []
    for n in (["tiny-gen", "small-gen"] if tier == "quick" else ["tiny-gen", "small-gen", "small-gen-rgoal", "medium-gen"]):
        alphabet.append([(n, 1), (n, 2), (n, None)])
    # histories that mix DIFFERENT benchmarks (state shared through module-level constants / parameter dicts)
    alphabet.append([("tiny-gen", 1), ("small-gen", 1), ("medium-gen", 1)])
    alphabet.append([("tiny-gen-rgoal", 0), ("small-gen-rgoal", 1), ("small-gen", None)])
    if tier == "thorough":
        alphabet.append([("tiny-gen", 0), ("large-gen", 0), ("pocp-1-gen", 0)])
    histories = []
    for alpha in alphabet:
        for L in (1, 2, 3):
            histories += [list(h) for h in itertools.product(alpha, repeat=L)]
    with mp.get_context("fork").Pool(processes=n_cpu) as pool:
        res_c = pool.map(_spawn_star, [({"kind": "history", "calls": h}, 0) for h in histories])
    solo = {}
    for h, r in zip(histories, res_c):
        if len(h) == 1:
            solo[json.dumps(h[0])] = r[0]
    for h, r in zip(histories, res_c):
        for call, fp in zip(h, r):
            if solo.get(json.dumps(call)) != fp:
                violations.append({"property": "C14", "kind": "generation_result_depends_on_earlier_calls_in_the_process",
                                   "engine": "call_history", "history": h,
                                   "detail": {"history": h, "call": call}})
                break
    # ---------------- (d)
    fam = [e for e in family("quick") if e[1] in ("yaml", "dict", "shipped")]
    fam = [e for e in fam if any(0 < float(x["prob"]) < 1 for x in list(e[0].get("exploits", {}).values()) + list(e[0].get("privescs", {}).values()))]
    fam = fam[:: max(1, len(fam) // (16 if tier == "quick" else 48))]
    ej = [entry_to_json(e) for e in fam]
    # scenarios above the small-scope bound (11-23 hosts): what an environment remembers across reset() shows here
    from .family import shipped_spec
    ej.append(entry_to_json((shipped_spec("medium"), "shipped")))
    ej.append({"spec": {"name": "medium-gen-s1", "gen": ["medium-gen", 1]}, "binding": "generated"})
    tw = Tripwire()
    try:
        first = run_trajectories(ej, [0, 1, 2])
        second = run_trajectories(ej, [0, 1, 2])
    finally:
        tw.close()
    parts = [ej[i::8] for i in range(8)]
    with mp.get_context("fork").Pool(processes=8) as pool:
        res_d = pool.map(_spawn_star, [({"kind": "trajectories", "entries": pt, "seeds": [0, 1, 2]}, "random") for pt in parts if pt])
    fresh = {}
    for r in res_d:
        fresh.update(r)
    n_chance = 0
    for k, (h, nc) in first.items():
        n_chance += nc
        if h.startswith("differs-within-one-environment"):
            violations.append({"property": "C14", "kind": "seeded_trajectory_differs_when_repeated_later_on_the_same_environment",
                               "engine": "trajectories", "case": k, "detail": {"hashes": h}})
        elif second.get(k, [None])[0] != h or fresh.get(k, [None])[0] != h:
            violations.append({"property": "C14", "kind": "seeded_trajectory_not_reproducible",
                               "engine": "trajectories", "case": k,
                               "detail": {"same_process_repeat_equal": second.get(k, [None])[0] == h,
                                          "fresh_process_equal": fresh.get(k, [None])[0] == h}})
    # ---------------- (e) a trajectory must not depend on which OTHER scenario the process handled before
    from .family import build
    basec = {"shape": "1-2", "topo": "chain", "fw": "allow_all", "hostfw": "none", "sw": "2os2s2p", "exploits": "e0e2",
             "privescs": "two", "prob": "half", "cost": "unit", "values": "pos_neg", "discovery": "zero",
             "sensitive": "two_subnets", "step_limit": None, "bounds": "default", "host_order": "sorted", "names": "plain"}
    xp = build(basec, name="pred-plain")
    xs = build({**basec, "names": "swapped"}, name="pred-swapped")       # same names, lists in the other order
    xu = build({**basec, "exploits": "e1e3", "fw": "asym", "values": "frac"}, name="pred-other-content")
    ep, es, eu = (entry_to_json((x, "yaml")) for x in (xp, xs, xu))
    seqs = {"swapped_alone": [es], "swapped_after_plain": [ep, es], "plain_alone": [ep], "plain_after_swapped": [es, ep],
            "plain_after_other_content": [eu, ep]}
    with mp.get_context("fork").Pool(processes=len(seqs)) as pool:
        res_e = pool.map(_spawn_star, [({"kind": "trajectories", "entries": q, "seeds": [0, 1]}, 0) for q in seqs.values()])
    res_e = dict(zip(seqs.keys(), res_e))
    for alone, after in (("swapped_alone", "swapped_after_plain"), ("plain_alone", "plain_after_swapped"),
                         ("plain_alone", "plain_after_other_content")):
        for k, v in res_e[alone].items():
            if res_e[after].get(k, [None])[0] != v[0]:
                violations.append({"property": "C14", "kind": "seeded_trajectory_depends_on_the_scenario_handled_before",
                                   "engine": "predecessor", "case": k,
                                   "detail": {"alone": alone, "after_another_scenario": after, "case": k}})
    # ---------------- (f) the seed argument in every integer type a caller may hold it in (Python int, NumPy integer
    # scalars as produced by np.arange / rng.integers / SeedSequence): generating twice with the same parameters and seed
    # gives identical scenarios whatever the global generator did in between
    nasim = import_nasim()
    from nasim.scenarios.benchmark import AVAIL_GEN_BENCHMARKS
    n_f = 0
    for bname in ("tiny-gen", "small-gen", "medium-gen"):
        for sv in (0, 7):
            for T in (int, np.int64, np.int32, np.uint32, np.uint8):
                fps = []
                for noise in (11, 29):
                    np.random.seed(noise); np.random.rand(noise)
                    p = dict(AVAIL_GEN_BENCHMARKS[bname]); p["seed"] = T(sv)
                    try:
                        fps.append(fp_scenario(nasim.generate_scenario(**p)))
                    except Exception as e:
                        fps.append("EXC:" + type(e).__name__)
                n_f += 2
                if fps[0] != fps[1]:
                    violations.append({"property": "C14", "kind": "generation_with_the_same_seed_differs:seed_type_" + T.__name__,
                                       "engine": "seed_types", "params": {"benchmark": bname, "seed": sv, "seed_type": T.__name__},
                                       "detail": {"fingerprints": fps}})
    if n_chance == 0:
        raise HarnessError("vacuous C14 trajectories: no chance-decided step executed")
    evals = runs_a + n_b + len(histories) + 3 * len(first)
    cov = {
        "states": evals, "transitions": evals, "traces_validated_against_impl": evals,
        "evaluations": evals,
        "distinct_nontrivial": nontriv_a + n_b - len(ref) + sum(1 for h in histories if len(h) > 1) + len(first),
        "rule": RULE,
        "samples": rotate([{"params": {k: j[0][k] for k in ("num_hosts", "num_services", "seed")}} for j in jobs], 2)
        + [{"history": histories[len(histories) // 2]}, {"hash_seeds": hash_seeds}],
        "exhaustive": True,
        "set_order_runs": runs_a, "set_order_nondefault_runs": nontriv_a,
        "materialisation_points_seen": sum(r["order_points"] for r in res_a),
        "cross_process_fingerprints": n_b, "hash_seeds": [str(h) for h in hash_seeds],
        "generation_call_histories": len(histories),
        "trajectory_cases": len(first), "chance_decided_steps_per_run": n_chance,
        "other_entropy_sources_called_from_nasim_code(informational)": tw.calls,
        "bound": "set orders: <=%d non-default materialisation(s) per run; hash seeds: 5 values; call histories: length<=3; "
                 "trajectories: BFS-tree + depth-2 histories x NumPy seeds 0..2" % (1 if tier == "quick" else 2),
        "note": "states/transitions = executions compared",
    }
    assume = ["'every value of PYTHONHASHSEED' is decided exhaustively only for set iteration orders reached through the name `set` "
              "in generator.py; other mechanisms are covered differentially (5 hash seeds)",
              "fingerprint = canonical JSON of the scenario definition (hosts, firewall as sorted lists, exploits, escalations, sensitive hosts, topology, bounds)"]
    # the same calls repeated LATER on the same environment object (after other episodes, look-aheads, resets) must give
    # the same trajectory (mc/apiseq.py: every step / reset result against the pristine state graph)
    from . import apiseq
    api_cov, api_viol = apiseq.check_part("C14", tier)
    cov["api_sequence_exploration"] = api_cov
    violations = list(violations) + api_viol
    return finish(pid, tier, cov, violations, assume, t0)


def replay(pid, rec):
    if rec.get("engine") == "seed_types":
        nasim = import_nasim()
        from nasim.scenarios.benchmark import AVAIL_GEN_BENCHMARKS
        q = rec["params"]
        T = {"int": int, "int64": np.int64, "int32": np.int32, "uint32": np.uint32, "uint8": np.uint8}[q["seed_type"]]
        fps = []
        for noise in (11, 29):
            np.random.seed(noise); np.random.rand(noise)
            p = dict(AVAIL_GEN_BENCHMARKS[q["benchmark"]]); p["seed"] = T(q["seed"])
            fps.append(fp_scenario(nasim.generate_scenario(**p)))
        return [{"kind": rec["kind"], "detail": {"fingerprints": fps}}] if fps[0] != fps[1] else []
    if rec.get("engine") == "apiseq":
        from . import apiseq
        return apiseq.replay(rec)
    import_nasim()
    eng = rec.get("engine")
    if eng == "set_order":
        params = rec["params"]
        r0, sc0, e0 = gx.execute(params)
        orders = {int(k): v for k, v in rec["orders"].items()}
        r1, sc1, e1 = gx.execute(params, orders=orders)
        gx.uninstall()
        bad = sc0 is None or sc1 is None or fp_scenario(sc0) != fp_scenario(sc1)
        return [{"kind": rec["kind"], "detail": rec["detail"]}] if bad else []
    if eng == "hashseed_differential":
        case = rec["case"]
        if case.startswith("params"):
            return []
        n, s = case.split("|")
        fps = {hs: spawn_child({"kind": "gen_fps", "items": [(n, int(s))]}, hs)[case] for hs in (0, 1, 2, 3)}
        return [{"kind": rec["kind"], "detail": fps}] if len(set(fps.values())) > 1 else []
    if eng == "call_history":
        h = rec["history"]
        r = spawn_child({"kind": "history", "calls": h}, 0)
        for call, fp in zip(h, r):
            if spawn_child({"kind": "history", "calls": [call]}, 0)[0] != fp:
                return [{"kind": rec["kind"], "detail": {"history": h, "call": call}}]
        return []
    return []
