"""C09 — state and observation vectors follow the documented layout.

An independent decoder (mc/layout.py, written from the HostVector / Observation docstrings) is
applied to the initial state of every family scenario, to every reachable state, and to the
observations of every (state, action) through the public step() of a 1D and a 2D environment;
the from-array constructors and readable decoders are fed every such array and compared cell by
cell with the independent decoder.  Generated benchmarks (incl. enlarged address bounds and up to
95 hosts / 50 services) are checked on their initial state.
"""
import time

import numpy as np

from .common import HarnessError, import_nasim
from .evidence import finish, rotate
from .layout import Layout
from .seams import draw_values
from .spec import host_value, spec_from_scenario, spec_to_json
from .sweep import run_family

RULE = ("initial tensor of every family/generated scenario decoded with the documented layout vs. the scenario "
        "definition; every reachable state and every step() observation (1D and 2D env) round-tripped through "
        "State.from_numpy / Observation.from_numpy / get_readable vs. the independent decoder; "
        "non-trivial = array with at least one non-zero dynamic or configuration cell compared")


def check_initial(ctx_report, spec, scenario, env, lay, key=None):
    """(1)+(2) of DESIGN C09 on one environment's initial state. ctx_report(kind, detail)."""
    n = 0
    env.reset()
    t = env.current_state.tensor
    want_shape = (lay.nhosts, lay.width)
    sd = tuple(int(x) for x in scenario.get_state_dims())
    od = tuple(int(x) for x in scenario.get_observation_dims())
    if tuple(t.shape) != want_shape or sd != want_shape or od != (want_shape[0] + 1, want_shape[1]):
        ctx_report("state_shape_differs_from_documented_size",
                   {"tensor": list(t.shape), "documented": list(want_shape), "scenario.get_state_dims": list(sd),
                    "scenario.get_observation_dims": list(od)})
        return n
    if t.dtype != np.float32:
        ctx_report("state_dtype_not_float32", {"dtype": str(t.dtype)})
    if not lay.bind_rows(t):
        ctx_report("address_one_hots_do_not_reproduce_the_scenario_hosts",
                   {"decoded": [str(lay.decode_row(r)["address"]) for r in t]})
        return n
    for a in lay.addrs:
        row = t[lay.row_of[a]]
        want = lay.expected_config_row(spec, a)
        cols = lay.config_cols
        n += 1
        if not np.array_equal(row[cols], want[cols]):
            bad = [c for c in cols if row[c] != want[c]]
            ctx_report("decoded_host_row_differs_from_host_definition",
                       {"host": str(a), "columns": bad[:8], "row": row.tolist(), "expected_config": want.tolist()})
            return n
    return n


def readable_matches(lay, row, rd, is_obs_zero_ok=True):
    """compare HostVector.get_readable output `rd` with the independent decode of `row`"""
    d = lay.decode_row(row)
    probs = []
    if d["address"] is not None and tuple(int(x) for x in rd["Address"]) != d["address"]:
        probs.append("Address")
    for name, key in (("Compromised", "compromised"), ("Reachable", "reachable"), ("Discovered", "discovered")):
        if bool(rd[name]) != bool(d[key]):
            probs.append(name)
    for name, key in (("Value", "value"), ("Discovery Value", "discovery_value"), ("Access", "access")):
        if float(rd[name]) != float(d[key]):
            probs.append(name)
    for grp in ("os", "services", "processes"):
        for nm, v in d[grp].items():
            if nm not in rd or bool(rd[nm]) != bool(v):
                probs.append(f"{grp}:{nm}")
    return probs


def post_explore(ctx, res, pids, opts):
    import_nasim()
    from nasim.envs import NASimEnv
    from nasim.envs.state import State
    from nasim.envs.observation import Observation
    lay, spec, seam = ctx.layout, ctx.spec, ctx.seam
    counts = {"initial_rows": 0, "state_roundtrips": 0, "obs_pairs": 0, "nontrivial": 0}

    def rep(kind, detail, key=None):
        ctx.report("C09", kind, key=key, detail=detail)

    counts["initial_rows"] += check_initial(lambda k, d: rep(k, d), spec, ctx.scenario, ctx.env, Layout(spec))
    env1 = NASimEnv(ctx.scenario, fully_obs=False, flat_actions=True, flat_obs=True)
    env2 = NASimEnv(ctx.scenario, fully_obs=False, flat_actions=True, flat_obs=False)
    env3 = NASimEnv(ctx.scenario, fully_obs=True, flat_actions=True, flat_obs=False)
    counts["fully_observable_obs"] = 0
    shape = (lay.nhosts, lay.width)
    hnm = ctx.scenario.host_num_map
    names = set(lay.os) | set(lay.services) | set(lay.processes)
    unique_names = len(names) == len(lay.os) + len(lay.services) + len(lay.processes)
    keys = list(res["seen"].keys())
    for s, key in zip(res["order"], keys):
        x = s.tensor
        # ---- state round trip through the public from-array constructor and readable decoder
        st = State.from_numpy(x.flatten(), shape, hnm)
        counts["state_roundtrips"] += 1
        if st.tensor.shape != shape or not np.array_equal(st.tensor, x) \
                or not np.array_equal(np.asarray(st.numpy()), x) \
                or not np.array_equal(np.asarray(st.numpy_flat()), x.reshape(-1)):
            rep("State.from_numpy_does_not_reproduce_the_array", {}, key)
        elif unique_names:
            rd_all = st.get_readable()
            for i, rd in enumerate(rd_all):
                p = readable_matches(lay, x[i], rd)
                if p:
                    rep("State.get_readable_disagrees_with_documented_layout",
                        {"row": i, "fields": p, "readable": {k: (v if not hasattr(v, "item") else v.item()) for k, v in rd.items() if k != "Address"}}, key)
                    break
        # the host-number map is a MAPPING address -> row: a State built around the same mapping written down in
        # another order is the same State (readable decoding and initial observation included)
        if counts["state_roundtrips"] <= 12:
            hnm_r = dict(reversed(list(hnm.items())))
            st_r = State.from_numpy(x.flatten(), shape, hnm_r)
            try:
                same = (np.array_equal(st_r.get_initial_observation(False).tensor, st.get_initial_observation(False).tensor)
                        and np.array_equal(st_r.get_initial_observation(True).tensor, st.get_initial_observation(True).tensor)
                        and [(a, hv.vector.tolist()) for a, hv in sorted(st_r.hosts)] == [(a, hv.vector.tolist()) for a, hv in sorted(st.hosts)])
            except Exception as e:
                same = False
            if not same:
                rep("State_from_numpy_depends_on_the_order_in_which_the_host_number_map_is_written", {}, key)
        if x.any():
            counts["nontrivial"] += 1
        # ---- observations through step(): 1D is the row-major flattening of 2D
        for a_idx, action in enumerate(ctx.actions):
            mact = ctx.mactions[a_idx]
            if mact is None:
                continue
            dv = draw_values(mact["prob"])["below"]
            env1.current_state = s
            env2.current_state = s
            seam.arm(dv)
            o1, r1, d1, t1, i1 = env1.step(action)
            seam.arm(dv)
            o2, r2, d2, t2, i2 = env2.step(action)
            counts["obs_pairs"] += 1
            o1 = np.asarray(o1)
            o2 = np.asarray(o2)
            if o2.shape != (lay.nhosts + 1, lay.width) or o1.shape != ((lay.nhosts + 1) * lay.width,):
                rep("observation_shape_differs_from_documented_size",
                    {"shape_1d": list(o1.shape), "shape_2d": list(o2.shape), "action_index": a_idx}, key)
                break
            if not np.array_equal(o1, o2.reshape(-1)):
                rep("1D_observation_is_not_row_major_flattening_of_2D", {"action_index": a_idx}, key)
                break
            aux = o2[lay.nhosts]
            flags = [float(bool(i2[k])) for k in ("success", "connection_error", "permission_error", "undefined_error")]
            if aux[:4].tolist() != flags or aux[4:].any():
                rep("auxiliary_row_not_last_row_with_four_flags", {"aux": aux.tolist(), "flags": flags, "action_index": a_idx}, key)
                break
            if o2[: lay.nhosts].any():
                counts["nontrivial"] += 1
            ob = Observation.from_numpy(o1, shape)
            ob2 = Observation.from_numpy(o2, shape)
            bad_rt = [nm for nm, got, want in (
                ("from_numpy(1D).tensor", ob.tensor, o2), ("from_numpy(1D).numpy()", ob.numpy(), o2),
                ("from_numpy(1D).numpy_flat()", ob.numpy_flat(), o1), ("from_numpy(2D).numpy()", ob2.numpy(), o2),
                ("from_numpy(2D).numpy_flat()", ob2.numpy_flat(), o1))
                if np.asarray(got).shape != np.asarray(want).shape or not np.array_equal(np.asarray(got), want)]
            if bad_rt:
                rep("Observation.from_numpy_does_not_reproduce_the_array", {"action_index": a_idx, "accessors": bad_rt}, key)
                break
            if unique_names:
                host_obs, aux_obs = ob.get_readable()
                bad = None
                for i, rd in enumerate(host_obs):
                    p = readable_matches(lay, o2[i], rd)
                    if p:
                        bad = (i, p)
                        break
                want_aux = {"Success": bool(flags[0]), "Connection Error": bool(flags[1]),
                            "Permission Error": bool(flags[2]), "Undefined Error": bool(flags[3])}
                if bad or {k: bool(v) for k, v in aux_obs.items()} != want_aux:
                    rep("Observation.get_readable_disagrees_with_documented_layout",
                        {"row_fields": bad, "aux": {k: bool(v) for k, v in aux_obs.items()}, "action_index": a_idx}, key)
                    break
                # the fully observable observation carries every host's complete row (values of any sign included):
                # its readable decoding must give back exactly the array's content as well
                env3.current_state = s
                seam.arm(dv)
                o3 = np.asarray(env3.step(action)[0])
                counts["fully_observable_obs"] += 1
                if o3.shape != (lay.nhosts + 1, lay.width):
                    rep("observation_shape_differs_from_documented_size", {"shape_2d_fully_obs": list(o3.shape), "action_index": a_idx}, key)
                    break
                host3, _ = Observation.from_numpy(o3, shape).get_readable()
                bad3 = None
                for i, rd in enumerate(host3):
                    p = readable_matches(lay, o3[i], rd)
                    if p:
                        bad3 = (i, p)
                        break
                if bad3:
                    rep("Observation.get_readable_disagrees_with_documented_layout",
                        {"row_fields": bad3, "fully_obs": True, "action_index": a_idx, "row": o3[bad3[0]].tolist()}, key)
                    break
    return counts


GEN_NAMES = ["tiny-gen", "tiny-gen-rgoal", "small-gen", "small-gen-rgoal", "medium-gen", "large-gen", "huge-gen",
             "pocp-1-gen", "pocp-2-gen"]


def generated_initial_states(tier):
    """initial-state decoding of generated scenarios, default and enlarged address bounds"""
    nasim = import_nasim()
    from nasim.envs import NASimEnv
    from nasim.scenarios.benchmark import AVAIL_GEN_BENCHMARKS
    viol, n_rows, n_scen, samples = [], 0, 0, []
    seeds = range(0, 10) if tier == "thorough" else range(0, 4)
    names = GEN_NAMES if tier == "thorough" else GEN_NAMES[:7]
    for name in names:
        for seed in seeds:
            for enlarge in (False, True):
                params = dict(AVAIL_GEN_BENCHMARKS[name])
                params["seed"] = seed
                if enlarge:
                    base = nasim.generate_scenario(**dict(params))
                    b = base.address_space_bounds
                    params["address_space_bounds"] = (int(b[0]) + 2, int(b[1]) + 3)
                sc = nasim.generate_scenario(**params)
                spec = spec_from_scenario(sc, name=f"{name}-s{seed}{'-B' if enlarge else ''}")
                bad_os = [a for a, h in spec["hosts"].items() if not isinstance(h["os"], str)]
                if bad_os:
                    continue    # "exactly one OS" is C15's matter
                env = NASimEnv(sc)
                lay = Layout(spec)
                n_scen += 1

                def rep(kind, detail, _spec=spec, _name=name, _seed=seed, _enl=enlarge):
                    viol.append({"property": "C09", "kind": kind, "engine": "generated_initial",
                                 "generator": {"benchmark": _name, "seed": _seed, "enlarged_bounds": _enl},
                                 "detail": detail})
                n_rows += check_initial(rep, spec, sc, env, lay)
                if len(samples) < 6:
                    samples.append({"generated": name, "seed": seed, "enlarged_bounds": enlarge,
                                    "tensor_shape": list(env.current_state.tensor.shape)})
    # the SAME host definitions under other address-space bounds: a second Scenario built around the first one's
    # scenario dictionary (shared Host objects - hosts are configuration), its environment built right after the
    # first one's; bounds with the same and with another row width
    from nasim.scenarios import Scenario
    import nasim.scenarios.utils as u
    for name, seed in (("tiny-gen", 0), ("small-gen", 1), ("tiny-gen-rgoal", 2)):
        params = dict(AVAIL_GEN_BENCHMARKS[name]); params["seed"] = seed
        sc1 = nasim.generate_scenario(**params)
        b = tuple(int(x) for x in sc1.address_space_bounds)
        for nb in ((b[0] + 1, b[1]), (b[0] + 2, b[1] + 1), (b[0] + 1, b[1] + 1), (b[0] + 3, b[1] + 2)):
            # first environment with bounds of the SAME sum as nb (one more subnet column, one less host column) ...
            first = (nb[0] - 1, nb[1] + 1)
            for bounds_pair in ((first, nb), (nb, first)):
                envs = []
                for bb in bounds_pair:
                    d = dict(sc1.scenario_dict); d[u.ADDRESS_SPACE_BOUNDS] = bb
                    sc2 = Scenario(d, name="verif")
                    spec2 = spec_from_scenario(sc2, name=f"{name}-s{seed}-rebound{bb}")
                    if [a for a, h in spec2["hosts"].items() if not isinstance(h["os"], str)]:
                        break
                    env2 = NASimEnv(sc2)
                    envs.append(env2)
                    n_scen += 1

                    def rep(kind, detail, _name=name, _seed=seed, _bp=bounds_pair, _bb=bb):
                        viol.append({"property": "C09", "kind": kind, "engine": "rebound_initial",
                                     "generator": {"benchmark": _name, "seed": _seed, "bounds_in_order": [list(x) for x in _bp],
                                                   "failing_bounds": list(_bb)}, "detail": detail})
                    n_rows += check_initial(rep, spec2, sc2, env2, Layout(spec2))
    # all nine shipped files (up to 16 hosts, host ids >= 10, several public subnets): initial state vs file
    from .family import SHIPPED_ALL, shipped_path, shipped_spec
    for n in SHIPPED_ALL:
        sc = nasim.load_scenario(shipped_path(n), name=n)
        spec = shipped_spec(n)
        env = NASimEnv(sc)
        n_scen += 1

        def rep(kind, detail, _n=n):
            viol.append({"property": "C09", "kind": kind, "engine": "shipped_initial", "scenario_name": _n, "detail": detail})
        n_rows += check_initial(rep, spec, sc, env, Layout(spec))
    return viol, n_rows, n_scen, samples


def run(pid, tier):
    t0 = time.time()
    agg, violations, errors = run_family(["C09"], tier, {"post": ["chk_layout"]})
    if errors:
        raise HarnessError("; ".join(errors[:3]))
    gv, g_rows, g_scen, g_samples = generated_initial_states(tier)
    ex = agg.get("extra", {}).get("chk_layout", {})
    samples = [{"scenario": r[0], "binding": r[1], "hosts": r[2], "states": r[4]} for r in rotate(agg["per_scenario"], 3)]
    cov = {
        "states": agg["states"] + g_scen,
        "transitions": int(ex.get("obs_pairs", 0)) + agg["transitions"],
        "traces_validated_against_impl": int(ex.get("obs_pairs", 0)) + int(ex.get("state_roundtrips", 0)),
        "evaluations": int(ex.get("obs_pairs", 0)) + int(ex.get("state_roundtrips", 0)) + int(ex.get("initial_rows", 0)) + g_rows,
        "distinct_nontrivial": int(ex.get("nontrivial", 0)) + g_rows,
        "rule": RULE,
        "samples": samples + g_samples[:3],
        "exhaustive": not agg["capped_scenarios"],
        "scenarios": agg["scenarios"], "generated_scenarios_initial_state": g_scen,
        "initial_host_rows_decoded": int(ex.get("initial_rows", 0)) + g_rows,
        "state_roundtrips": int(ex.get("state_roundtrips", 0)),
        "observation_pairs_1d_2d": int(ex.get("obs_pairs", 0)),
        "family_features": agg["features"],
        "bound": "complete reachable graphs of the family (incl. enlarged address bounds, 1-2 OS/services/processes); "
                 "generated benchmarks on the initial state only",
    }
    assume = ["row order of hosts is not part of the documented layout (rows are identified by their one-hot address)",
              "readable decoders are compared only when OS/service/process names are pairwise distinct (else keys collide by design)"]
    return finish(pid, tier, cov, [v for v in violations if v["property"] == "C09"] + gv, assume, t0)


def replay(pid, rec):
    if rec.get("engine") == "shipped_initial":
        nasim = import_nasim()
        from nasim.envs import NASimEnv
        from .family import shipped_path, shipped_spec
        n = rec["scenario_name"]
        sc = nasim.load_scenario(shipped_path(n), name=n)
        out = []
        check_initial(lambda k, d: out.append({"kind": k, "detail": d}), shipped_spec(n), sc, NASimEnv(sc), Layout(shipped_spec(n)))
        return out
    if rec.get("engine") == "rebound_initial":
        nasim = import_nasim()
        from nasim.envs import NASimEnv
        from nasim.scenarios import Scenario
        from nasim.scenarios.benchmark import AVAIL_GEN_BENCHMARKS
        import nasim.scenarios.utils as u
        g = rec["generator"]
        params = dict(AVAIL_GEN_BENCHMARKS[g["benchmark"]]); params["seed"] = g["seed"]
        sc1 = nasim.generate_scenario(**params)
        out = []
        for bb in g["bounds_in_order"]:
            d = dict(sc1.scenario_dict); d[u.ADDRESS_SPACE_BOUNDS] = tuple(bb)
            sc2 = Scenario(d, name="verif")
            spec2 = spec_from_scenario(sc2)
            check_initial(lambda k, dd: out.append({"kind": k, "detail": dd}), spec2, sc2, NASimEnv(sc2), Layout(spec2))
        return out
    if rec.get("engine") == "generated_initial":
        nasim = import_nasim()
        from nasim.envs import NASimEnv
        from nasim.scenarios.benchmark import AVAIL_GEN_BENCHMARKS
        g = rec["generator"]
        params = dict(AVAIL_GEN_BENCHMARKS[g["benchmark"]]); params["seed"] = g["seed"]
        if g["enlarged_bounds"]:
            b = nasim.generate_scenario(**dict(params)).address_space_bounds
            params["address_space_bounds"] = (int(b[0]) + 2, int(b[1]) + 3)
        sc = nasim.generate_scenario(**params)
        spec = spec_from_scenario(sc)
        out = []
        check_initial(lambda k, d: out.append({"kind": k, "detail": d}), spec, sc, NASimEnv(sc), Layout(spec))
        return out
    from .sweep import make_ctx
    from .explore import explore
    from .spec import spec_from_json
    spec = rec["scenario"]
    spec = spec_from_json(spec) if "subnets" in spec else spec
    ctx = make_ctx(spec, rec["binding"])
    from .sweep import replay_explore
    res = replay_explore(ctx)
    post_explore(ctx, res, ["C09"], {})
    return [v for v in ctx.violations if v["kind"] == rec["kind"]] or ctx.violations
