"""The scenario family: a grammar, not a sampler.

A scenario is assembled from independent feature axes, each with a tiny domain chosen from the
shortcuts visible in the code (see DESIGN.md §1.2).  `quick_family()` is a deterministic
pairwise-covering selection of the axis product (+ hand-picked corner scenarios + shipped and
generated benchmarks); `thorough_family()` adds the exhaustive firewall enumeration on the
two-subnet shape, 3-wise-ish extra products and larger shapes.
"""
import itertools
import os

import yaml

from .common import REPO, USER, ROOT
from .spec import all_addresses, spec_from_yaml_doc, yaml_expressible

# ------------------------------------------------------------------------------------------- axes
AXES = {
    "shape": ["1-1", "2-1", "1-2", "1-1-1", "1-2-1", "1-1-1-1"],
    "topo": ["chain", "full", "star", "two_public", "island", "chain_rev"],
    "fw": ["allow_all", "dmz_s0", "asym", "one_s1", "second_public_only", "inner_empty", "split"],
    "hostfw": ["none", "deny_pivot", "deny_same_subnet", "deny_other"],
    "sw": ["1os1s1p", "2os2s2p", "1os2s1p", "2os1s2p"],
    "exploits": ["e0", "e0e1", "e0e2", "e1e3", "e0e3", "e0e0b", "e1e0"],
    "privescs": ["none", "any_root", "os_root", "user_grant", "two", "dup_pair", "same_os"],
    "prob": ["one", "half", "mixed_zero", "fine"],
    "cost": ["unit", "frac", "fine", "third"],
    "values": ["zero", "pos_neg", "frac", "odd"],
    "discovery": ["zero", "one", "frac", "big_neg"],
    "sensitive": ["last", "two_subnets", "same_subnet", "public", "three"],
    "step_limit": [None, 1, 3],
    "bounds": ["default", "enlarged"],
    "host_order": ["sorted", "reversed"],
    "names": ["plain", "unsorted", "swapped", "shared"],
}
AXIS_ORDER = list(AXES.keys())


def _topology(n, kind):
    """(n+1)x(n+1) symmetric, self-connected adjacency with the internet as node 0."""
    N = n + 1
    t = [[1 if i == j else 0 for j in range(N)] for i in range(N)]

    def link(a, b):
        t[a][b] = t[b][a] = 1

    link(0, 1)
    if kind == "chain":
        for i in range(1, n):
            link(i, i + 1)
    elif kind == "full":
        for i in range(1, N):
            for j in range(i + 1, N):
                link(i, j)
    elif kind == "star":
        for i in range(2, N):
            link(1, i)
    elif kind == "two_public":
        if n >= 2:
            link(0, 2)
        if n == 2:
            link(1, 2)
        for i in range(2, n):
            link(i, i + 1)
        # subnet 1 and 2 are both public; with n>=3 subnet 1 is NOT connected to 2 (two entry points)
    elif kind == "chain_rev":
        # attack order differs from subnet numbering: internet - 1 - n - (n-1) - ... - 2
        seq = [1] + list(range(n, 1, -1))
        for a, b in zip(seq, seq[1:]):
            link(a, b)
    elif kind == "island":
        # last subnet is a private island connected to nothing; the rest is a chain
        for i in range(1, n - 1):
            link(i, i + 1)
    else:
        raise ValueError(kind)
    return t


def _software(kind):
    nos, ns, np_ = int(kind[0]), int(kind[3]), int(kind[5])
    return ([f"os{i}" for i in range(nos)], [f"s{i}" for i in range(ns)], [f"p{i}" for i in range(np_)])


def build(choice, name=None):
    """choice: dict axis -> value. Returns a spec (the actual realised features are adapted to the
    shape where an axis value is not expressible, e.g. 'same_subnet' without a 2-host subnet)."""
    subnets = [int(x) for x in choice["shape"].split("-")]
    n = len(subnets)
    topo = _topology(n, choice["topo"])
    oss, srvs, procs = _software(choice["sw"])
    spec = {"name": name or "fam", "subnets": subnets, "topology": topo,
            "os": oss, "services": srvs, "processes": procs}
    addrs = all_addresses(spec)

    # ---- exploits / escalations
    s1 = srvs[1] if len(srvs) > 1 else srvs[0]
    os1 = oss[1] if len(oss) > 1 else oss[0]
    p1 = procs[1] if len(procs) > 1 else procs[0]
    prob_of = {"one": [1.0, 1.0, 1.0, 1.0], "half": [0.5, 0.5, 0.5, 0.5], "mixed_zero": [0.5, 1.0, 0.0, 0.25],
               "fine": [0.996, 0.004, 0.333, 0.125]}[choice["prob"]]
    cost_of = {"unit": [1, 1, 1, 1], "frac": [2.5, 1, 1.5, 3], "fine": [0.125, 1.375, 0.625, 2.005],
               # numbers that neither float32 nor six decimals represent exactly
               "third": [1 / 3, 0.1, 2 / 3, 1.0000001]}[choice["cost"]]
    edefs = {
        "e0": {"service": srvs[0], "os": oss[0], "access": USER},
        "e1": {"service": srvs[0], "os": None, "access": ROOT},
        "e2": {"service": s1, "os": os1, "access": USER},
        "e3": {"service": s1, "os": None, "access": USER},
        "e0b": {"service": srvs[0], "os": oss[0], "access": ROOT},   # second exploit for the SAME (service, os)
    }
    names = {"e0": ["e0"], "e0e1": ["e0", "e1"], "e0e2": ["e0", "e2"], "e1e3": ["e1", "e3"], "e0e3": ["e0", "e3"],
             "e0e0b": ["e0", "e0b"], "e1e0": ["e1", "e0"]}[choice["exploits"]]
    spec["exploits"] = {}
    seen_keys = set()
    for k, nm in enumerate(names):
        d = dict(edefs[nm])
        key = (d["service"], d["os"])
        if key in seen_keys and nm != "e0b":      # collapses when only one service / OS exists
            continue
        seen_keys.add(key)
        d["prob"] = prob_of[int(nm[1])] if nm != "e0b" else prob_of[3]
        d["cost"] = cost_of[int(nm[1])] if nm != "e0b" else (0.75 if choice["cost"] == "frac" else 3)   # cheaper / dearer twin
        spec["exploits"][nm] = d
    pdefs = {
        "any_root": {"pe0": {"process": procs[0], "os": None, "access": ROOT}},
        "os_root": {"pe0": {"process": procs[0], "os": oss[0], "access": ROOT}},
        "user_grant": {"pe0": {"process": p1, "os": None, "access": USER},
                       "pe1": {"process": procs[0], "os": os1, "access": ROOT}},
        "two": {"pe0": {"process": procs[0], "os": None, "access": ROOT},
                "pe1": {"process": p1, "os": os1, "access": ROOT}},
        "same_os": {"pe0": {"process": procs[0], "os": None, "access": ROOT},
                    "pe1": {"process": p1, "os": None, "access": ROOT}},
        "dup_pair": {"pe0": {"process": procs[0], "os": None, "access": USER},
                     "pe0b": {"process": procs[0], "os": None, "access": ROOT}},
        "none": {},
    }[choice["privescs"]]
    spec["privescs"] = {}
    seen_keys = set()
    for k, (nm, d) in enumerate(pdefs.items()):
        key = (d["process"], d["os"])
        if key in seen_keys and nm != "pe0b":
            continue
        seen_keys.add(key)
        d = dict(d)
        d["prob"] = prob_of[(k + 1) % 4] if choice["prob"] not in ("mixed_zero", "fine") else \
            ([1.0, 0.5][k % 2] if choice["prob"] == "mixed_zero" else [0.996, 0.333][k % 2])
        d["cost"] = cost_of[(k + 2) % 4]
        spec["privescs"][nm] = d
    sc = {"unit": {"service": 1, "os": 1, "subnet": 1, "process": 1},
          "frac": {"service": 0, "os": 0.5, "subnet": 2, "process": 1},
          "fine": {"service": 0.125, "os": 0.375, "subnet": 1.125, "process": 0.625},
          "third": {"service": 0.1, "os": 1 / 3, "subnet": 0.1, "process": 2 / 3}}[choice["cost"]]
    spec["scan_costs"] = sc

    # ---- hosts: cyclic assignment of configuration patterns
    patterns = [
        {"os": oss[0], "services": list(srvs), "processes": list(procs)},
        {"os": os1, "services": list(srvs), "processes": [procs[0]]},
        {"os": oss[0], "services": [srvs[0]], "processes": []},
        {"os": os1, "services": [s1], "processes": [p1]},
        {"os": oss[0], "services": [s1], "processes": list(procs)},
    ]
    val_cycle = {"zero": [0, 0, 0, 0, 0], "pos_neg": [1, -3, 0, 1, -3], "frac": [0.5, 0, 0.5, 1, 0],
                 # not representable in float32 / seven significant digits / large
                 "odd": [0.1, 100.1, -0.3, 1234567, 0.7]}[choice["values"]]
    dv_cycle = {"zero": [0, 0, 0, 0, 0], "one": [1, 1, 1, 1, 1], "frac": [0.5, 0, 1, 0.5, 0],
                "big_neg": [25, -2, 25, 0, 25]}[choice["discovery"]]
    spec["hosts"] = {}
    for i, a in enumerate(addrs):
        h = dict(patterns[i % len(patterns)])
        h["services"] = list(h["services"]); h["processes"] = list(h["processes"])
        h["value"] = val_cycle[i % 5]
        h["discovery_value"] = float(dv_cycle[i % 5])
        h["firewall"] = {}
        spec["hosts"][a] = h

    # ---- sensitive hosts
    kind = choice["sensitive"]
    last = addrs[-1]
    if choice["topo"] == "island" and n >= 2:
        # keep a sensitive host inside the attackable part so goal states exist in the graph
        last = [a for a in addrs if a[0] == n - 1][-1]
    sens = {}
    if kind == "last":
        sens[last] = 10
    elif kind == "two_subnets":
        sens[last] = 10
        other = [a for a in addrs if a[0] != last[0]]
        sens[other[-1] if len(other) > 1 else other[0]] = 10.5
    elif kind == "same_subnet":
        big = [s for s, size in enumerate(subnets, start=1) if size >= 2]
        if big:
            sens[(big[0], 0)] = 10
            sens[(big[0], 1)] = 7
        else:
            sens[last] = 10
            sens[addrs[0]] = 7
    elif kind == "public":
        sens[(1, 0)] = 10
    elif kind == "three":
        for k, a in enumerate(reversed(addrs[-3:] if len(addrs) >= 3 else addrs)):
            sens[a] = [10, 7, 10.5][k]
    spec["sensitive_hosts"] = sens
    for a in sens:
        spec["hosts"][a].pop("value", None)

    # ---- subnet firewall: every ordered connected pair (incl. the internet)
    fw = {}
    N = n + 1
    for i in range(N):
        for j in range(N):
            if i != j and topo[i][j] == 1:
                fw[(i, j)] = list(srvs)
    fk = choice["fw"]

    def setrule(k, v):
        if k in fw:
            fw[k] = [x for x in v if x in srvs]

    if fk == "dmz_s0":
        setrule((0, 1), [srvs[0]])
    elif fk == "dmz_s1":          # not an axis value: used by the large scenarios only
        setrule((0, 1), [s1])
    elif fk == "asym":
        for (i, j) in list(fw):
            if 0 < i < j:
                setrule((i, j), [srvs[0]])
            elif 0 < j < i:
                setrule((i, j), [])
    elif fk == "one_s1":
        for (i, j) in list(fw):
            if i > 0 and j > 0 and i < j:
                setrule((i, j), [s1])
    elif fk == "second_public_only":
        if (0, 2) in fw:
            setrule((0, 1), [])
            setrule((0, 2), [srvs[0]])
        else:
            setrule((0, 1), [srvs[0]])
    elif fk == "split":
        # rules leaving one subnet (or the internet) differ per destination: s0 towards odd, s1 towards even subnets
        for (i, j) in list(fw):
            if j > 0:
                setrule((i, j), [srvs[0]] if j % 2 == 1 else [s1])
    elif fk == "inner_empty":
        for (i, j) in list(fw):
            if i > 0 and j > 0 and j == N - 1:
                setrule((i, j), [])
    spec["firewall"] = fw

    # ---- host firewalls
    hk = choice["hostfw"]
    if hk != "none" and len(addrs) >= 2:
        tgt = addrs[-1] if addrs[-1][0] != 1 else addrs[0]
        piv = (1, 0)
        if hk == "deny_pivot" and tgt != piv:
            spec["hosts"][tgt]["firewall"] = {piv: [srvs[0]]}
        elif hk == "deny_same_subnet":
            mates = [a for a in addrs if a[0] == tgt[0] and a != tgt]
            if mates:
                spec["hosts"][tgt]["firewall"] = {mates[0]: list(srvs)}
            else:
                spec["hosts"][tgt]["firewall"] = {piv: list(srvs)} if tgt != piv else {}
        elif hk == "deny_other":
            # deny from every host except the first pivot, plus a rule on the DMZ host itself
            spec["hosts"][tgt]["firewall"] = {a: [srvs[-1]] for a in addrs if a not in (tgt, piv)}
            if tgt != piv:
                spec["hosts"][piv]["firewall"] = {tgt: [srvs[0]]}

    spec["step_limit"] = choice["step_limit"]
    if choice["bounds"] == "enlarged":
        spec["address_space_bounds"] = (n + 1 + 2, max(subnets) + 3)
    else:
        spec["address_space_bounds"] = None
    spec["host_order"] = choice.get("host_order", "sorted")
    spec["choice"] = dict(choice)
    if choice.get("names") == "swapped":
        # the same names in the opposite order (the order of the lists is part of the scenario, the SET is not)
        for k in ("os", "services", "processes"):
            spec[k] = list(reversed(spec[k]))
    if choice.get("names") == "unsorted":
        # names are labels: lists that are NOT in alphabetical order, names containing one another
        from .spec import rename_spec
        spec = rename_spec(spec, {"os0": "zos", "os1": "aos", "s0": "web", "s1": "aweb", "p0": "zproc", "p1": "proc"}, suffix="")
    if choice.get("names") == "shared":
        # one name used in several lists (an OS, a service and a process may all be called the same: the lists are
        # separate name spaces), crossed so that equal names sit at DIFFERENT positions of their lists
        from .spec import rename_spec
        spec = rename_spec(spec, {"os1": "tomcat", "s0": "tomcat", "s1": "cron", "p0": "cron", "p1": "tomcat"}, suffix="")
    return spec


# ------------------------------------------------------------------------------------------- covering arrays
def pairwise(axes, order, base_rows=()):
    """Deterministic greedy pairwise covering array over `axes` (dict name -> list of values)."""
    names = list(order)
    need = set()
    for a, b in itertools.combinations(range(len(names)), 2):
        for va in axes[names[a]]:
            for vb in axes[names[b]]:
                need.add((a, va, b, vb))

    def covered_by(row):
        out = set()
        for a, b in itertools.combinations(range(len(names)), 2):
            out.add((a, row[a], b, row[b]))
        return out

    rows = []
    for r in base_rows:
        rows.append(tuple(r))
        need -= covered_by(r)
    while need:
        # seed the row with the first uncovered pair, then fill greedily
        a, va, b, vb = sorted(need, key=repr)[0]
        row = [None] * len(names)
        row[a], row[b] = va, vb
        for i in range(len(names)):
            if row[i] is not None:
                continue
            best, best_gain = None, -1
            for v in axes[names[i]]:
                gain = 0
                for j in range(len(names)):
                    if row[j] is None or j == i:
                        continue
                    x, y = (i, j) if i < j else (j, i)
                    key = (x, v if x == i else row[j], y, row[j] if x == i else v)
                    if key in need:
                        gain += 1
                if gain > best_gain:
                    best, best_gain = v, gain
            row[i] = best
        rows.append(tuple(row))
        need -= covered_by(row)
    return [dict(zip(names, r)) for r in rows]


def twise(axes, order, t=3):
    """Deterministic greedy t-wise covering array: every combination of values of every t axes occurs in a row."""
    names = list(order)
    n = len(names)
    vals = [axes[k] for k in names]
    combos_idx = list(itertools.combinations(range(n), t))
    need = set()
    for idx in combos_idx:
        for combo in itertools.product(*[range(len(vals[i])) for i in idx]):
            need.add((idx, combo))
    rows = []
    while need:
        idx, combo = min(need)
        row = [None] * n
        for i, v in zip(idx, combo):
            row[i] = v
        for i in range(n):
            if row[i] is not None:
                continue
            fixed = [j for j in range(n) if row[j] is not None]
            best, best_gain = 0, -1
            for v in range(len(vals[i])):
                gain = 0
                for sub in itertools.combinations(fixed, t - 1):
                    ids = tuple(sorted(sub + (i,)))
                    if (ids, tuple(v if k == i else row[k] for k in ids)) in need:
                        gain += 1
                if gain > best_gain:
                    best, best_gain = v, gain
            row[i] = best
        rows.append(tuple(row))
        for idx in combos_idx:
            need.discard((idx, tuple(row[i] for i in idx)))
    return [dict((names[i], vals[i][r[i]]) for i in range(n)) for r in rows]


# ------------------------------------------------------------------------------------------- shipped / generated
SHIPPED_SMALL = ["tiny", "tiny-hard", "tiny-small", "small", "small-honeypot", "small-linear"]
SHIPPED_ALL = SHIPPED_SMALL + ["medium", "medium-single-site", "medium-multi-site"]


def shipped_path(name):
    return os.path.join(REPO, "nasim", "scenarios", "benchmark", name + ".yaml")


def shipped_spec(name):
    with open(shipped_path(name)) as f:
        doc = yaml.safe_load(f)
    return spec_from_yaml_doc(doc, name=name)


def api_specs():
    """small scenarios with a SMALL action alphabet for the API-sequence exploration (mc/apiseq.py): a ring (one
    subnet in scan range of two independent ones, non-zero discovery values), two entry points with a DMZ whose
    service is blocked from the internet, and a 3-host chain with a step limit of 2 and a user- and a root-level
    exploit for the same host.  They are also corner scenarios of the family, so the complete state graph of each
    is validated against the reference model by every sweep-based check."""
    base = {"shape": "1-1-1-1", "topo": "chain", "fw": "allow_all", "hostfw": "none", "sw": "1os1s1p",
            "exploits": "e1e0", "privescs": "none", "prob": "half", "cost": "frac", "values": "pos_neg",
            "discovery": "frac", "sensitive": "two_subnets", "step_limit": None, "bounds": "default",
            "host_order": "sorted", "names": "plain"}
    out = []
    ring = build(base, name="api-ring")
    ring["exploits"] = {"e1": ring["exploits"]["e1"]}                 # one root-level exploit, no escalation
    ring["exploits"]["e1"]["cost"] = 1 / 3                            # neither float32 nor 6 decimals hold these exactly
    ring["scan_costs"] = dict(ring["scan_costs"], subnet=0.1)
    ring["sensitive_hosts"][(4, 0)] = 100.1
    ring["topology"][1][4] = ring["topology"][4][1] = 1               # 1-2-3-4-1
    ring["firewall"][(1, 4)] = list(ring["services"]); ring["firewall"][(4, 1)] = list(ring["services"])
    out.append(ring)
    c = dict(base); c.update(shape="1-1-1", topo="two_public", sw="1os2s1p", exploits="e0e3", privescs="any_root",
                             hostfw="deny_pivot", discovery="one", sensitive="last", fw="dmz_s1")
    two = build(c, name="api-2pub")
    two["topology"][1][3] = two["topology"][3][1] = 1                 # 3 is behind both entry points
    two["firewall"][(1, 3)] = list(two["services"]); two["firewall"][(3, 1)] = list(two["services"])
    two["exploits"]["e0"]["access"] = ROOT                              # (3, 0) runs s0 only and refuses it from (1, 0)
    out.append(two)
    c = dict(base); c.update(shape="2-1", topo="chain", exploits="e0e1", privescs="any_root", discovery="one",
                             sensitive="last", step_limit=2, values="pos_neg")
    out.append(build(c, name="api-limit"))
    return out


def corner_specs():
    """hand-picked scenarios, one per shortcut that the covering array may realise only weakly"""
    out = list(api_specs())

    def mk(name, **kw):
        base = {"shape": "1-1", "topo": "chain", "fw": "allow_all", "hostfw": "none", "sw": "1os1s1p",
                "exploits": "e0", "privescs": "any_root", "prob": "one", "cost": "unit", "values": "zero",
                "discovery": "zero", "sensitive": "last", "step_limit": None, "bounds": "default",
                "host_order": "sorted", "names": "plain"}
        base.update(kw)
        out.append(build(base, name=name))

    mk("corner-minimal")
    mk("corner-unsorted-names", sw="2os2s2p", exploits="e0e2", privescs="two", names="unsorted", shape="1-2",
       sensitive="two_subnets")
    mk("corner-root-exploit-then-user", sw="2os2s2p", exploits="e0e1", privescs="user_grant", values="pos_neg",
       sensitive="two_subnets", shape="1-2")
    mk("corner-hostfw-pivot", shape="1-1-1", topo="full", hostfw="deny_pivot", sw="1os2s1p", exploits="e0e3",
       prob="half")
    mk("corner-hostfw-same-subnet", shape="1-2", topo="chain", hostfw="deny_same_subnet", sw="1os1s1p")
    mk("corner-two-public", shape="1-1-1", topo="two_public", fw="second_public_only", sw="2os2s2p",
       exploits="e0e1", sensitive="two_subnets")
    mk("corner-asym", shape="1-1-1", topo="chain", fw="asym", sw="1os2s1p", exploits="e0e3", discovery="one")
    mk("corner-star3", shape="1-1-1", topo="star", sensitive="two_subnets", discovery="one", values="frac",
       cost="frac", sw="2os1s2p", privescs="two")
    mk("corner-island", shape="1-1-1", topo="island", sensitive="last", values="pos_neg")
    mk("corner-prob0", shape="1-2", sw="2os2s2p", exploits="e0e2", prob="mixed_zero", privescs="two")
    mk("corner-steplimit1", step_limit=1, shape="2-1")
    mk("corner-bounds", bounds="enlarged", shape="1-2-1", topo="star", discovery="frac", sw="2os2s2p",
       exploits="e0e2", sensitive="same_subnet")
    mk("corner-public-sensitive", sensitive="public", shape="2-1", privescs="none", exploits="e1e3", sw="1os2s1p")
    mk("corner-chain-rev", shape="1-1-1", topo="chain_rev", discovery="one", host_order="reversed")
    mk("corner-reversed-hosts", shape="1-2-1", topo="chain", host_order="reversed", sensitive="two_subnets")
    # a host whose only attacker-controlled route is a same-subnet neighbour that its host firewall denies
    sp = build({"shape": "2-2", "topo": "chain", "fw": "allow_all", "hostfw": "none", "sw": "1os2s1p",
                "exploits": "e0e3", "privescs": "any_root", "prob": "one", "cost": "unit", "values": "zero",
                "discovery": "zero", "sensitive": "last", "step_limit": None, "bounds": "default",
                "host_order": "sorted"}, name="corner-same-subnet-only-route")
    sp["hosts"][(1, 0)].update(services=["s1"], firewall={})
    sp["hosts"][(1, 1)].update(services=["s0"], os="os0", firewall={(1, 0): ["s0"]})
    sp["hosts"][(2, 0)].update(services=["s1"], os="os0", firewall={})
    sp["hosts"][(2, 1)].update(services=["s0"], os="os0", firewall={(2, 0): ["s0"]})
    sp["firewall"][(0, 1)] = ["s1"]
    sp["firewall"][(1, 2)] = ["s1"]
    out.append(sp)
    # an escalation that carries the NAME of an exploit (the two sections are separate name spaces)
    mk("corner-shared-action-name", shape="1-2", sw="1os2s1p", exploits="e0e3", privescs="any_root", prob="half",
       sensitive="two_subnets")
    out[-1]["privescs"] = {"e0": out[-1]["privescs"]["pe0"]}
    # Host objects constructed with status flags set (documented optional constructor arguments; the initial state
    # of an episode is defined by the network - nothing is held, only public hosts are known - not by these flags)
    mk("corner-host-status-flags", shape="1-2", sw="1os1s1p", exploits="e0", privescs="any_root", prob="half",
       sensitive="last", discovery="one")
    out[-1]["hosts"][(2, 0)]["_init_flags"] = {"compromised": True, "access": 2, "reachable": True, "discovered": True}
    out[-1]["hosts"][(1, 0)]["_init_flags"] = {"compromised": True, "access": 1}
    mk("corner-split-rules", shape="1-1-1", topo="star", fw="split", sw="1os2s1p", exploits="e0e3", sensitive="two_subnets")
    mk("corner-split-two-public", shape="1-1-1", topo="two_public", fw="split", sw="1os2s1p", exploits="e0e3")
    mk("corner-shared-names", shape="1-2", sw="2os2s2p", exploits="e0e2", privescs="two", names="shared", sensitive="two_subnets",
       prob="half")
    mk("corner-swapped-names", shape="1-2", sw="2os2s2p", exploits="e0e2", privescs="two", names="swapped", sensitive="two_subnets")
    mk("corner-tree4", shape="1-1-1-1", topo="star", sensitive="three", discovery="one", sw="2os2s2p", exploits="e0e1",
       privescs="two", hostfw="deny_other")
    mk("corner-chain4", shape="1-1-1-1", topo="chain", fw="asym", sensitive="two_subnets", sw="1os2s1p", exploits="e0e3",
       prob="half", cost="fine")
    mk("corner-inner-empty", shape="1-1-1", topo="full", fw="inner_empty", sw="1os2s1p", exploits="e0e3")
    return out


def scale_specs(tier):
    """grammar-built scenarios whose SIZE crosses thresholds that small scenarios cannot (host ids >= 10, subnet ids
    >= 8, more than 8 links on one subnet, > 8 / > 10 hosts, public subnets that are not a prefix of the host order);
    explored around the reference plan (path-bounded), never as complete graphs"""
    base = {"shape": "12-3", "topo": "chain", "fw": "allow_all", "hostfw": "deny_other", "sw": "1os2s1p",
            "exploits": "e0e3", "privescs": "any_root", "prob": "half", "cost": "frac", "values": "pos_neg",
            "discovery": "frac", "sensitive": "two_subnets", "step_limit": None, "bounds": "default",
            "host_order": "sorted", "names": "plain"}
    out = []

    def mk(name, cap, **kw):
        c = dict(base); c.update(kw)
        sp = build(c, name=name)
        sp["_path_only"] = True
        sp["_path_cap"] = cap
        # the YAML format cannot express discovery values: keep these in the dict binding unless they are all zero
        out.append(sp)

    mk("scale-12-3", 14)
    mk("scale-3-11-2", 14, shape="3-11-2", topo="full", sw="2os2s2p", exploits="e0e1", privescs="two", discovery="zero",
       host_order="reversed")
    mk("scale-chain9", 14, shape="1-1-1-1-1-1-1-1-1", topo="chain", sensitive="last", discovery="one", hostfw="none")
    mk("scale-hub9", 14, shape="1-1-1-1-1-1-1-1-1-1", topo="star", sensitive="three", discovery="one", hostfw="none",
       fw="split")
    mk("scale-rev-two-public", 14, shape="2-3-2-3", topo="two_public", host_order="reversed", discovery="zero",
       fw="second_public_only", sensitive="same_subnet")
    # > 1000 tensor cells (str(tensor) is abbreviated by NumPy beyond that), YAML-expressible, host firewalls
    mk("scale-12-12-12", 12, shape="12-12-12", topo="chain", sw="2os2s2p", exploits="e0e3", privescs="two",
       discovery="zero", sensitive="two_subnets", hostfw="deny_pivot", fw="dmz_s1")
    # the same size with the host rows in reverse address order (deep subnets first) and inner rules that let only
    # s1 through: s0 exploits need a pivot inside the target's own subnet, i.e. in the LOW rows
    mk("scale-12-12-12-rev", 12, shape="12-12-12", topo="chain", sw="2os2s2p", exploits="e0e3", privescs="two",
       discovery="zero", sensitive="two_subnets", hostfw="none", fw="one_s1", host_order="reversed")
    # ... and every other host of the deepest subnet refuses s0 from (3, 0), the first pivot gained there: the s0
    # exploits inside subnet 3 depend on exactly which of its hosts are held
    for a, h in out[-1]["hosts"].items():
        if a[0] == 3 and a != (3, 0):
            h["firewall"] = {(3, 0): [out[-1]["services"][0]]}
    if tier == "thorough":
        mk("scale-1-70", 16, shape="1-70", topo="chain", sw="1os1s1p", exploits="e0", hostfw="none", discovery="one",
           sensitive="last")
        mk("scale-1-170", 10, shape="1-170", topo="chain", sw="1os1s1p", exploits="e0", hostfw="none", discovery="one",
           sensitive="last")
        mk("scale-11x11", 10, shape="11-1-1-1-1-1-1-1-1-1-1", topo="chain", sw="1os1s1p", exploits="e0", hostfw="none",
           discovery="zero", sensitive="last")
        mk("scale-130", 10, shape="65-65", topo="chain", sw="1os1s1p", exploits="e0", hostfw="none", discovery="zero",
           sensitive="last")
    return out


def scale_documents():
    """YAML-expressible large documents for the loader checks: two-digit host ids, ten subnets, many sensitive hosts"""
    out = []
    for sp in scale_specs("quick"):
        out.append(sp if yaml_expressible(sp) else _strip_dict_only(sp))
    many = build({"shape": "12-3", "topo": "chain", "fw": "asym", "hostfw": "deny_pivot", "sw": "2os2s2p",
                  "exploits": "e0e2", "privescs": "two", "prob": "half", "cost": "unit", "values": "zero",
                  "discovery": "zero", "sensitive": "last", "step_limit": 50, "bounds": "default",
                  "host_order": "sorted", "names": "plain"}, name="scale-many-sensitive")
    for k, a in enumerate(all_addresses(many)):
        if k % 5 != 4:                      # 12 of the 15 hosts are sensitive, incl. two-digit host ids
            many["sensitive_hosts"][a] = 10 + k
            many["hosts"][a].pop("value", None)
    out.append(many)
    return out


def fw_exhaustive_specs():
    """thorough: all 4^4 subsets of {s0,s1} for the four directed rules of the 2-subnet chain"""
    base = {"shape": "1-1", "topo": "chain", "fw": "allow_all", "hostfw": "none", "sw": "1os2s1p",
            "exploits": "e0e3", "privescs": "any_root", "prob": "one", "cost": "unit", "values": "zero",
            "discovery": "zero", "sensitive": "last", "step_limit": None, "bounds": "default",
            "host_order": "sorted"}
    subsets = [[], ["s0"], ["s1"], ["s0", "s1"]]
    out = []
    for k, combo in enumerate(itertools.product(subsets, repeat=4)):
        sp = build(base, name=f"fwx-{k}")
        for key, v in zip([(0, 1), (1, 0), (1, 2), (2, 1)], combo):
            sp["firewall"][key] = list(v)
        out.append(sp)
    return out


def _entries_for(spec, both=False):
    """(spec, binding) entries: the YAML binding (real loader in the loop) whenever the format can
    express the scenario, else the dict binding; `both` adds the other one too."""
    if yaml_expressible(spec):
        return [(spec, "yaml")] + ([(spec, "dict")] if both else [])
    return [(spec, "dict")]


def _strip_dict_only(spec):
    """variant of a dict-only spec that the YAML format can express (discovery 0, default bounds)"""
    import copy
    s = copy.deepcopy(spec)
    s["name"] = spec["name"] + "-y"
    s["address_space_bounds"] = None
    for h in s["hosts"].values():
        h["discovery_value"] = 0.0
    return s


def quick_family():
    entries = []
    rows = pairwise(AXES, AXIS_ORDER)
    for i, ch in enumerate(rows):
        sp = build(ch, name=f"pw-{i}")
        entries += _entries_for(sp)
        if not yaml_expressible(sp) and i % 3 == 0:
            entries += _entries_for(_strip_dict_only(sp))
    # second covering array, axes in reverse order: the greedy completion realises other triples
    axes = dict(AXES)
    axes["shape"] = ["1-1", "2-1", "1-2", "1-1-1", "1-1-1-1"]
    for i, ch in enumerate(pairwise(axes, list(reversed(AXIS_ORDER)))):
        sp = build(ch, name=f"pwR-{i}")
        entries += _entries_for(sp)
    for sp in corner_specs():
        entries += _entries_for(sp, both=True)
    for n in ["tiny", "tiny-hard", "tiny-small", "small"]:
        entries.append((shipped_spec(n), "shipped"))
    entries.append(({"name": "tiny-gen", "gen": ["tiny-gen", 0]}, "generated"))
    entries.append(({"name": "tiny-gen-rgoal", "gen": ["tiny-gen-rgoal", 1]}, "generated"))
    # SCALE: scenarios far beyond the complete-graph bound (16-23 hosts) are explored around a reference path: every
    # state on the reference model's closure plan is expanded with EVERY action and both draws (all one-step
    # deviations from the plan are executed and checked, not expanded further). Reported as capped.
    sp = shipped_spec("medium")
    sp["_path_only"] = True
    entries.append((sp, "shipped"))
    entries.append(({"name": "medium-gen-s0", "gen": ["medium-gen", 0], "_path_only": True}, "generated"))
    entries.append(({"name": "large-gen-s1", "gen": ["large-gen", 1], "_path_only": True}, "generated"))
    entries.append((shipped_spec("small-linear"), "shipped"))
    entries.append(({"name": "huge-gen-s0", "gen": ["huge-gen", 0], "_path_only": True, "_path_cap": 12}, "generated"))
    for sp in scale_specs("quick"):
        entries += _entries_for(sp)
    # scenarios straight out of the generator (firewall rules as sets, NumPy topology, np.str_ names)
    for seed in (0, 1):
        entries.append(({"name": f"gen5-s{seed}", "genparams": {
            "num_hosts": 5, "num_services": 2, "num_os": 2, "num_processes": 2, "exploit_probs": 0.5,
            "privesc_probs": 0.75, "restrictiveness": 1, "r_sensitive": 10, "r_user": 7.5, "exploit_cost": 2,
            "host_discovery_value": 0.5, "base_host_value": 1, "step_limit": 3 if seed else None, "seed": seed}}, "generated"))
    entries.append(({"name": "gen4-uniform", "genparams": {
        "num_hosts": 4, "num_services": 3, "num_os": 3, "num_processes": 1, "uniform": True, "random_goal": True,
        "exploit_probs": None, "num_exploits": 4, "restrictiveness": 2, "seed": 3,
        "address_space_bounds": (7, 6)}}, "generated"))
    return entries


def thorough_family():
    entries = list(quick_family())
    # third and fourth covering arrays (rotated axis orders)
    for r, rot in enumerate((5, 9)):
        order = AXIS_ORDER[rot:] + AXIS_ORDER[:rot]
        for i, ch in enumerate(pairwise(AXES, order)):
            sp = build(ch, name=f"pwT{r}-{i}")
            entries += _entries_for(sp, both=(i % 4 == 0))
    # strength 3: every combination of values of every THREE axes occurs in some scenario (~500 rows)
    for i, ch in enumerate(twise(AXES, AXIS_ORDER, 3)):
        sp = build(ch, name=f"tw3-{i}")
        entries += _entries_for(sp)
    for sp in fw_exhaustive_specs():
        entries += _entries_for(sp)
    for n in ["small-honeypot"]:
        entries.append((shipped_spec(n), "shipped"))
    for n in ["medium-single-site", "medium-multi-site"]:
        sp = shipped_spec(n)
        sp["_path_only"] = True
        sp["name"] = n
        entries.append((dict(sp, name=n), "shipped"))
    for sp in scale_specs("thorough")[len(scale_specs("quick")):]:
        entries += _entries_for(sp)
    entries.append(({"name": "gen180", "genparams": {"num_hosts": 180, "num_services": 3, "seed": 4,
                                                      "exploit_probs": 0.5, "host_discovery_value": 5},
                     "_path_only": True, "_path_cap": 8}, "generated"))
    for g, seed in (("huge-gen", 0), ("pocp-1-gen", 0), ("medium-gen", 3), ("large-gen", 4)):
        entries.append(({"name": f"{g}-path-s{seed}", "gen": [g, seed], "_path_only": True}, "generated"))
    # 16-host shipped scenarios: breadth-first exploration capped at 1200 states (reported as capped, never
    # called exhaustive): all action histories up to the depth the cap allows, every action, both draw sides
    for n in ["medium", "medium-single-site", "medium-multi-site"]:
        sp = shipped_spec(n)
        sp["_max_states"] = 1200
        entries.append((sp, "shipped"))
    for seed in (0, 2):
        entries.append(({"name": f"tiny-gen-s{seed}", "gen": ["tiny-gen", seed]}, "generated"))
    entries.append(({"name": "small-gen-s0", "gen": ["small-gen", 0]}, "generated"))
    entries.append(({"name": "small-gen-rgoal-s1", "gen": ["small-gen-rgoal", 1]}, "generated"))
    return entries


def family(tier):
    return thorough_family() if tier == "thorough" else quick_family()


def feature_counts(entries):
    """how often each axis value occurs (vacuity is visible in the evidence)"""
    import collections
    c = collections.Counter()
    for sp, binding in entries:
        c[f"binding={binding}"] += 1
        for k, v in (sp.get("choice") or {}).items():
            c[f"{k}={v}"] += 1
    return dict(sorted(c.items()))
