#!/usr/bin/env python3
"""Run registered checks against a seeded mutation.

usage: mutest.py <seeded-dir-or-patch> [Cxx ...] [--tier quick]
Applies the patch to /repo (git apply), runs ./check for the given properties (default: the property the
seed targets), reverts (git checkout -- .) even on error, prints one summary line per check.
"""
import json, os, subprocess, sys, time

def main():
    args = [a for a in sys.argv[1:] if not a.startswith("--")]
    tier = "quick"
    for a in sys.argv[1:]:
        if a.startswith("--tier="):
            tier = a.split("=")[1]
    src = args[0]
    patch = os.path.abspath(src if src.endswith(".diff") else os.path.join(src, "patch.diff"))
    props = args[1:]
    if not props:
        meta = json.load(open(os.path.join(src, "meta.json")))
        props = [meta["property"]]
    st = subprocess.run(["git", "-C", "/repo", "status", "--porcelain"], capture_output=True, text=True).stdout.strip()
    if st:
        print("REFUSING: /repo working tree not clean:\n" + st); sys.exit(2)
    subprocess.run(["git", "-C", "/repo", "apply", patch], check=True)
    out = []
    try:
        for p in props:
            t = time.time()
            r = subprocess.run(["./check", p, "--tier", tier], cwd="/verif", capture_output=True, text=True)
            lines = [l for l in r.stdout.splitlines() if l.startswith(("VIOLATION", "KNOWN-FINDING"))]
            kinds = ""
            for l in lines[:1]:
                if "replay=" in l:
                    try:
                        rec = json.load(open(l.split("replay=")[1].strip()))
                        kinds = rec.get("kind", "")
                    except Exception:
                        pass
            print(f"{os.path.basename(os.path.dirname(patch)) or patch} {p} exit={r.returncode} "
                  f"violations={sum(1 for l in lines if l.startswith('VIOLATION'))} first_kind={kinds} "
                  f"wall={time.time()-t:.0f}s" + ("" if r.returncode in (0, 1) else " STDERR: " + r.stderr.strip()[-300:]))
            out.append((p, r.returncode))
    finally:
        subprocess.run(["git", "-C", "/repo", "checkout", "--", "."], check=True)
        subprocess.run(["git", "-C", "/repo", "clean", "-fdq", "--", "nasim"], check=False)
    sys.exit(0)
main()
