#!/usr/bin/env python3
"""Print the markdown table of seeded changes from seeded/*/meta.json and splice it into DESIGN.md (@@SEED_TABLE@@ or between markers)."""
import json, glob, os, re, sys
HERE = os.path.dirname(os.path.dirname(os.path.abspath(__file__)))
rows = []
for d in sorted(glob.glob(os.path.join(HERE, "seeded", "*"))):
    m = json.load(open(os.path.join(d, "meta.json")))
    sid = os.path.basename(d)
    notes = m.get("needs_to_manifest", "")
    first = ""
    p = os.path.join(d, "notes.md")
    if os.path.exists(p):
        txt = [l.strip() for l in open(p).read().splitlines() if l.strip() and not l.startswith("#")]
        first = txt[0] if txt else ""
    else:
        first = m.get("origin", "")
    first = re.sub(r"[|`*]", "", first)[:150]
    det = m.get("detected_by", {})
    cells = []
    for chk, r in sorted(det.items()):
        if isinstance(r, dict):
            k = (r.get("violation_kinds") or [""])[0]
            cells.append(f"{chk}: {'CAUGHT' if r.get('exit') == 1 else 'exit ' + str(r.get('exit'))}" + (f" ({k[:60]})" if k else ""))
    rows.append(f"| {sid} | {m['property']} | {first} | {'; '.join(cells) or 'not run yet'} |")
table = ("Every row: the change kept the 1092 pinned tests green, its demo fails with and passes without the patch, and the "
         "registered quick command of the property was run with the patch applied to /repo (then reverted).\n\n"
         "| seed | property | change (first line of its notes) | outcome of `./check <property> --tier quick` |\n|---|---|---|---|\n" + "\n".join(rows) + "\n")
p = os.path.join(HERE, "DESIGN.md")
s = open(p).read()
B, E = "<!-- SEED_TABLE_BEGIN -->", "<!-- SEED_TABLE_END -->"
block = B + "\n" + table + E
if "@@SEED_TABLE@@" in s:
    s = s.replace("@@SEED_TABLE@@", block)
elif B in s:
    s = s[: s.index(B)] + block + s[s.index(E) + len(E):]
open(p, "w").write(s)
caught = sum(1 for r in rows if "CAUGHT" in r)
quick_caught = 0
for d in sorted(glob.glob(os.path.join(HERE, "seeded", "*"))):
    m = json.load(open(os.path.join(d, "meta.json")))
    r = m.get("detected_by", {}).get(m["property"])
    quick_caught += 1 if isinstance(r, dict) and r.get("exit") == 1 else 0
print(f"caught by the quick tier: {quick_caught}")
print(f"{len(rows)} seeds, {caught} caught by their property's check")
