#!/venv/bin/python
"""Run the pinned baseline suite of /repo (or another tree) and compare with BASELINE.json.

usage: baseline.py [repo_dir]     exit 0 iff every stable_pass test passes.
"""
import json, subprocess, sys, tempfile, os, xml.etree.ElementTree as ET

def main():
    repo = sys.argv[1] if len(sys.argv) > 1 else "/repo"
    base = json.load(open("/root/.vp/BASELINE.json"))
    stable = set(base["stable_pass"])
    with tempfile.TemporaryDirectory() as td:
        xmlf = os.path.join(td, "junit.xml")
        env = dict(os.environ)
        env.pop("NASIM_VERIF", None)
        p = subprocess.run(
            ["/venv/bin/python", "-m", "pytest", "-q", "-x" if False else "-q", "-p", "no:cacheprovider",
             "--timeout=900", "--continue-on-collection-errors", "-n", "0", f"--junitxml={xmlf}"]
            if False else
            ["/venv/bin/python", "-m", "pytest", "-q", "-p", "no:cacheprovider",
             "--timeout=900", "--continue-on-collection-errors", f"--junitxml={xmlf}"],
            cwd=repo, env=env, stdout=subprocess.PIPE, stderr=subprocess.STDOUT, text=True)
        tail = p.stdout.strip().splitlines()[-1:] 
        passed = set()
        for tc in ET.parse(xmlf).getroot().iter("testcase"):
            bad = any(ch.tag in ("failure", "error", "skipped") for ch in tc)
            if not bad:
                passed.add(f"{tc.get('classname')}::{tc.get('name')}")
    missing = sorted(stable - passed)
    print(f"pytest: {tail}")
    print(f"stable_pass={len(stable)} passed_now={len(passed)} stable_missing={len(missing)}")
    for m in missing[:20]:
        print("  MISSING", m)
    sys.exit(1 if missing else 0)

main()
