#!/usr/bin/env python3
"""Run every seeded mutation against its property's quick check (and extra checks listed on the command line
as id:Cxx,Cyy) and record the outcome in seeded/<id>/meta.json["detected_by"]."""
import json, os, subprocess, sys, time, glob
HERE = os.path.dirname(os.path.dirname(os.path.abspath(__file__)))
only = [a for a in sys.argv[1:] if not a.startswith("--")]
TIER = "thorough" if "--thorough" in sys.argv else "quick"
extra = {}
for d in sorted(glob.glob(os.path.join(HERE, "seeded", "*"))):
    sid = os.path.basename(d)
    if only and not any(sid.startswith(o) for o in only):
        continue
    meta = json.load(open(os.path.join(d, "meta.json")))
    props = [meta["property"]]
    st = subprocess.run(["git", "-C", "/repo", "status", "--porcelain"], capture_output=True, text=True).stdout.strip()
    if st:
        print("REFUSING: /repo dirty"); sys.exit(2)
    patch = os.path.join(d, "patch.diff")
    if subprocess.run(["git", "-C", "/repo", "apply", "--check", patch]).returncode != 0:
        meta["detected_by"] = {"note": "patch no longer applies to /repo HEAD"}
        json.dump(meta, open(os.path.join(d, "meta.json"), "w"), indent=1); print(sid, "PATCH DOES NOT APPLY"); continue
    subprocess.run(["git", "-C", "/repo", "apply", patch], check=True)
    try:
        for p in props:
            t = time.time()
            r = subprocess.run(["./check", p, "--tier", TIER], cwd=HERE, capture_output=True, text=True)
            kinds = []
            for l in r.stdout.splitlines():
                if l.startswith("VIOLATION") and "replay=" in l and len(kinds) < 40:
                    try:
                        kinds.append(json.load(open(l.split("replay=")[1].strip())).get("kind"))
                    except Exception:
                        pass
            ks = sorted(set(k for k in kinds if k))
            meta.setdefault("detected_by", {})[p if TIER == "quick" else p + "@thorough"] = {
                "exit": r.returncode, "violation_kinds": ks[:6], "tier": TIER, "wall_s": round(time.time() - t)}
            print(sid, p, "exit", r.returncode, ks[:2], flush=True)
    finally:
        subprocess.run(["git", "-C", "/repo", "checkout", "--", "."], check=True)
    json.dump(meta, open(os.path.join(d, "meta.json"), "w"), indent=1)
