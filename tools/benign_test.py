#!/usr/bin/env python3
"""Run every registered quick check against a behaviour-preserving change (false-alarm hunt).
usage: benign_test.py <patch.diff> [Cxx ...]   -- applies the patch to the scratch worktree /tmp/wt/clean,
runs the pinned baseline there and then ./check with NASIM_REPO pointing at it; reverts."""
import json, os, subprocess, sys, time
WT = os.environ.get("BENIGN_WT", "/tmp/wt/clean2")
patch = os.path.abspath(sys.argv[1])
props = sys.argv[2:] or [f"C{i:02d}" for i in range(1, 21)]
subprocess.run(["git", "-C", WT, "checkout", "--", "."], check=True)
if subprocess.run(["git", "-C", WT, "apply", "--check", patch]).returncode != 0:
    print("PATCH DOES NOT APPLY", patch); sys.exit(2)
subprocess.run(["git", "-C", WT, "apply", patch], check=True)
res = {}
try:
    b = subprocess.run(["/venv/bin/python", "/verif/tools/baseline.py", WT], capture_output=True, text=True)
    res["baseline"] = b.returncode
    env = dict(os.environ); env["NASIM_REPO"] = WT
    for p in props:
        t = time.time()
        r = subprocess.run(["./check", p, "--tier", "quick"], cwd="/verif", capture_output=True, text=True, env=env)
        kinds = []
        for l in r.stdout.splitlines():
            if l.startswith("VIOLATION") and len(kinds) < 5:
                try:
                    kinds.append(json.load(open(l.split("replay=")[1].strip())).get("kind"))
                except Exception:
                    pass
        res[p] = r.returncode
        if r.returncode != 0:
            print(f"  ALARM {p} exit={r.returncode} kinds={sorted(set(kinds))} {r.stderr.strip()[-200:]}", flush=True)
finally:
    subprocess.run(["git", "-C", WT, "checkout", "--", "."], check=True)
bad = [p for p, rc in res.items() if rc != 0]
print(os.path.relpath(patch, "/tmp/wt"), "baseline", res.get("baseline"), "alarms:", bad or "none")
