#!/bin/bash
# Run the relevant registered quick checks against every behaviour-preserving change in /tmp/wt/B*/out/b*/
declare -A REL
REL[B01]="C01 C02 C03 C04 C05 C06 C07 C08 C12 C13 C16 C19 C20"
REL[B02]="C01 C05 C08 C09 C10 C12 C13 C19"
REL[B03]="C03 C04 C08 C09 C10 C12 C13 C19"
REL[B04]="C04 C06 C10 C11 C12 C13 C19 C20"
REL[B05]="C05 C07 C10 C11 C12 C19"
REL[B06]="C02 C17 C18 C19"
REL[B07]="C09 C14 C15 C16"
REL[B08]="C02 C09 C10 C11 C12 C14 C17 C19"
REL[B09]="C02 C06 C16 C20"
REL[B10]="C01 C02 C03 C04 C05 C06 C07 C08 C09 C10 C11 C12 C13 C19 C20"
cd /verif
for b in ${1:-B01 B02 B03 B04 B05 B06 B07 B08 B09 B10}; do
  for f in /tmp/wt/$b/out/b*/patch.diff; do
    [ -f "$f" ] && ./tools/benign_test.py $f ${REL[$b]}
  done
done
