#!/usr/bin/env python3
"""Regenerate MANIFEST.json from the table below (kept in one place so it stays valid)."""
import json, os, subprocess, sys
HERE = os.path.dirname(os.path.dirname(os.path.abspath(__file__)))

TECH = {
 "C01": ("explicit-state BFS of the real generative_step over complete state graphs (path-bounded for 9-180 host scenarios) x both draw sides x two action representations, lock-step reference model, anti-twin environment alive + exhaustive API-sequence exploration of the environment object (all two-episode route pairs, all one-perturbation programs) against the pristine state graph", "§2 C01"),
 "C02": ("explicit-state BFS over complete / path-bounded state graphs, model-forbidden-success oracle (discovery, pivot, subnet and host firewall gates), both action representations + exhaustive API-sequence exploration of the environment object (all two-episode route pairs, all one-perturbation programs) against the pristine state graph", "§2 C02"),
 "C03": ("state invariant on every explored state + discovery transition oracle + reset() from every explored state + exhaustive API-sequence exploration of the environment object (all two-episode route pairs, all one-perturbation programs) against the pristine state graph", "§2 C03"),
 "C04": ("transition invariants on every edge + env-object exploration of reset() from every (state, steps) + after-reset differential against a fresh environment + exhaustive API-sequence exploration of the environment object (all two-episode route pairs, all one-perturbation programs) against the pristine state graph", "§2 C04"),
 "C05": ("reward oracle on every edge (both action representations) + per-host paid-once reachability over all paths of each state graph + cross-episode reward probe + exhaustive API-sequence exploration of the environment object (all two-episode route pairs, all one-perturbation programs) against the pristine state graph", "§2 C05"),
 "C06": ("terminal-flag oracle on every edge/state + product exploration (state, steps) under step()/reset()/generative_step() + plan walks on 16-200 host networks + exhaustive API-sequence exploration of the environment object (all two-episode route pairs, all one-perturbation programs) against the pristine state graph", "§2 C06"),
 "C07": ("two-sided scripted draw on every (state, action); paired-outcome comparison; draw counting through the draw seam; both action representations + exhaustive API-sequence exploration of the environment object (all two-episode route pairs, all one-perturbation programs) against the pristine state graph", "§2 C07"),
 "C08": ("observation oracle on every edge in partially and fully observable mode with an independent documented-layout decoder; initial observation also after a sibling scenario was built + exhaustive API-sequence exploration of the environment object (all two-episode route pairs, all one-perturbation programs) against the pristine state graph", "§2 C08"),
 "C09": ("independent documented-layout decoder applied to every explored state/observation, from-array round trips, initial states of generated (default/enlarged bounds), re-bound and all shipped scenarios; fully observable observations decoded as well", "§3 C09"),
 "C10": ("exhaustive enumeration of every action-space member x 5 representations (+ enumerated sampler) and every explored observation x 8 modes; generated-scenario observations incl. sequentially built and coexisting same-layout environments", "§3 C10"),
 "C11": ("exhaustive enumeration of flat indices and parameterised vectors vs scenario text (incl. decode-twice); mask after every BFS-tree history via real step()/reset(); cross-process mapping fingerprints + exhaustive API-sequence exploration of the environment object (all two-episode route pairs, all one-perturbation programs) against the pristine state graph", "§3 C11"),
 "C12": ("8-mode lock-step comparison on every edge of the state graph (actions in each mode's own representation) + step histories + real-seed runs + exhaustive API-sequence exploration of the environment object (all two-episode route pairs, all one-perturbation programs) against the pristine state graph", "§3 C12"),
 "C13": ("byte-snapshot purity oracle around every generative_step + step()==generative_step() from every explored state + real-history differential against a pristine environment + exhaustive API-sequence exploration of the environment object (all two-episode route pairs, all one-perturbation programs) against the pristine state graph", "§3 C13"),
 "C14": ("set-iteration-order exploration of the generator + cross-process PYTHONHASHSEED differential + all generation-call histories (len<=3) + seeded trajectory replays incl. predecessor independence + exhaustive API-sequence exploration of the environment object (all two-episode route pairs, all one-perturbation programs) against the pristine state graph", "§3 C14"),
 "C15": ("deviation-bounded stateless exploration of the generator's RNG choice points (CHESS-style, one reused generator object) with well-formedness oracle and exact livelock confirmation", "§4 C15"),
 "C16": ("model closure plan replayed on the real environment for every explored generation and shipped file; closure oracle cross-checked against complete state graphs", "§4 C16"),
 "C17": ("exhaustive enumeration of a valid-document grammar x format styles; independent reader vs loaded Scenario; C01/C02/C05 sweep on the YAML binding (incl. 36-host files) for rule enforcement", "§4 C17"),
 "C18": ("single-fault catalogue (49 operators) applied at every site of every base document (one reused file path); loader must raise", "§4 C18"),
 "C19": ("enumeration of all order-preserving interleavings (switch-bounded) of two environments' 10-operation programs vs fresh-interpreter solo traces", "§3 C19"),
 "C20": ("exact optimum by DP / value iteration over complete state graphs (episodes started after several pre-histories on the same object) + exhaustive and structured topology enumeration through the public env API vs brute-force minimum connecting set", "§3 C20"),
}
TEXT = {
 "sweep": "Every reachable state of every scenario in a declared finite family is visited on the real code and every action is executed in it with the chance draw on both sides; the property's oracle is evaluated on each transition. Exhaustive within the family/bounds recorded in the evidence; says nothing about scenarios outside the family grammar.",
 "enum": "A declared finite input space (documents, parameter sets x RNG schedules, action-space members, interleavings) is enumerated completely on the real code and the oracle evaluated on each case; exhaustive within the stated bound only.",
}
LEVEL_NOTE = "Trusted base: /verif/mc (explorer, seams, reference model, independent layout decoder), CPython + NumPy. Assumes the family grammar / catalogue in /verif/mc contains a representative of every code shortcut; draw ties are excluded."

def main():
    built = set(sys.argv[1].split(",")) if len(sys.argv) > 1 else set(TECH)
    checks, na = [], []
    for pid in sorted(TECH):
        if pid not in built:
            na.append({"property_id": pid, "reason": "check not built yet in this round (planned: " + TECH[pid][0] + "); not claimed until it runs clean on the unchanged tree"})
            continue
        kind = "sweep" if pid in ("C01","C02","C03","C04","C05","C06","C07","C08","C13","C12","C09") else "enum"
        checks.append({
            "property_id": pid,
            "quick_cmd": f"./check {pid} --tier quick",
            "thorough_cmd": f"./check {pid} --tier thorough",
            "evidence_file": f"/verif/evidence/{pid}.json",
            "replay_cmd_template": f"./check {pid} --replay {{path}}",
            "engine": "mc",
            "level_claimed": {"category": "model_checking", "text": TEXT[kind], "design_ref": "DESIGN.md " + TECH[pid][1]},
            "level_note": LEVEL_NOTE,
            "technique": TECH[pid][0],
        })
    m = {
        "version": 1,
        "setup_cmd": "/venv/bin/python /verif/tools/selfcheck.py",
        "hooks": {
            "guard": "NASIM_VERIF",
            "enable": "none needed: all seams are installed from /verif/mc/seams.py by replacing module-level names (np, set) of the nasim modules at run time; /repo carries no hook code",
            "baseline_off_cmd": "/venv/bin/python /verif/tools/baseline.py /repo",
            "source_commits": [],
            "add_only": True,
        },
        "engines": [{"name": "mc", "path": "/verif/mc", "serves_properties": sorted(built),
                     "kind_free_text": "hand-written explicit-state / stateless bounded explorers over the real Python code (no model-checker for Python is installed), with a Python reference model validated on every transition"}],
        "checks": checks,
        "notes": "All checks import nasim from /repo's working tree (asserted). Exit 0 held / 1 VIOLATION / 2 harness error. Known findings: /verif/known_findings.json.",
        "not_applicable": na,
    }
    with open(os.path.join(HERE, "MANIFEST.json"), "w") as f:
        json.dump(m, f, indent=1)
    print("checks:", len(checks), "not_applicable:", len(na))
main()
