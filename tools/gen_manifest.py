#!/usr/bin/env python3
"""Regenerate MANIFEST.json from the table below (kept in one place so it stays valid)."""
import json, os, subprocess, sys
HERE = os.path.dirname(os.path.dirname(os.path.abspath(__file__)))

TECH = {
 "C01": ("explicit-state BFS of the real generative_step over complete state graphs x both draw sides, lock-step reference model", "§2 C01"),
 "C02": ("explicit-state BFS over complete state graphs, model-forbidden-success oracle (firewall/pivot/discovery gates)", "§2 C02"),
 "C03": ("state invariant on every reachable state + discovery transition oracle + reset from every state", "§2 C03"),
 "C04": ("transition invariants on every edge + env-object exploration of reset() from every (state, steps)", "§2 C04"),
 "C05": ("reward oracle on every edge + longest/shortest path DP over all paths of each state graph", "§2 C05"),
 "C06": ("terminal-flag oracle on every edge/state + product exploration (state, steps) under step()/generative_step()", "§2 C06"),
 "C07": ("two-sided scripted draw on every (state, action); paired-outcome comparison; draw counting through the draw seam", "§2 C07"),
 "C08": ("observation oracle on every edge in partially and fully observable mode, documented-layout decoder", "§2 C08"),
 "C09": ("independent documented-layout decoder applied to every reachable state/observation and from-array round trips", "§3 C09"),
 "C10": ("exhaustive enumeration of every action-space member x representation and every reachable observation x 8 modes", "§3 C10"),
 "C11": ("exhaustive enumeration of flat indices and parameterised vectors vs. scenario text; mask in every reachable state via real step/reset histories", "§3 C11"),
 "C12": ("8-mode lock-step comparison on every edge of the state graph + step histories + seeded runs", "§3 C12"),
 "C13": ("byte-snapshot purity oracle around every generative_step + step()==generative_step() from every reachable state", "§3 C13"),
 "C14": ("set-iteration-order exploration of the generator (order seam) + cross-process PYTHONHASHSEED differential + seeded trajectory replays", "§3 C14"),
 "C15": ("deviation-bounded stateless exploration of the generator's RNG choice points (CHESS-style) with well-formedness oracle", "§4 C15"),
 "C16": ("model closure plan replayed on the real environment for every explored generation and shipped file; cross-checked against full state graphs", "§4 C16"),
 "C17": ("exhaustive enumeration of a valid-document grammar; independent reader vs loaded Scenario", "§4 C17"),
 "C18": ("single-fault catalogue applied at every site of every base document; loader must raise", "§4 C18"),
 "C19": ("enumeration of all interleavings (switch-bounded) of two environments' operation lists vs solo traces", "§3 C19"),
 "C20": ("exact optimum by DP over complete state graphs + exhaustive topology enumeration vs brute-force minimum connecting set", "§3 C20"),
}
TEXT = {
 "sweep": "Every reachable state of every scenario in a declared finite family is visited on the real code and every action is executed in it with the chance draw on both sides; the property's oracle is evaluated on each transition. Exhaustive within the family/bounds recorded in the evidence; says nothing about scenarios outside the family grammar.",
 "enum": "A declared finite input space (documents, parameter sets x RNG schedules, action-space members, interleavings) is enumerated completely on the real code and the oracle evaluated on each case; exhaustive within the stated bound only.",
}
LEVEL_NOTE = "Trusted base: /verif/mc (explorer, seams, reference model, independent layout decoder), CPython + NumPy. Assumes the family grammar / catalogue in /verif/mc contains a representative of every code shortcut; draw ties are excluded."

def main():
    built = set(sys.argv[1].split(",")) if len(sys.argv) > 1 else set(TECH)
    checks, na = [], []
    for pid in sorted(TECH):
        if pid not in built:
            na.append({"property_id": pid, "reason": "check not built yet in this round (planned: " + TECH[pid][0] + "); not claimed until it runs clean on the unchanged tree"})
            continue
        kind = "sweep" if pid in ("C01","C02","C03","C04","C05","C06","C07","C08","C13","C12","C09") else "enum"
        checks.append({
            "property_id": pid,
            "quick_cmd": f"./check {pid} --tier quick",
            "thorough_cmd": f"./check {pid} --tier thorough",
            "evidence_file": f"/verif/evidence/{pid}.json",
            "replay_cmd_template": f"./check {pid} --replay {{path}}",
            "engine": "mc",
            "level_claimed": {"category": "model_checking", "text": TEXT[kind], "design_ref": "DESIGN.md " + TECH[pid][1]},
            "level_note": LEVEL_NOTE,
            "technique": TECH[pid][0],
        })
    m = {
        "version": 1,
        "setup_cmd": "/venv/bin/python /verif/tools/selfcheck.py",
        "hooks": {
            "guard": "NASIM_VERIF",
            "enable": "none needed: all seams are installed from /verif/mc/seams.py by replacing module-level names (np, set) of the nasim modules at run time; /repo carries no hook code",
            "baseline_off_cmd": "/venv/bin/python /verif/tools/baseline.py /repo",
            "source_commits": [],
            "add_only": True,
        },
        "engines": [{"name": "mc", "path": "/verif/mc", "serves_properties": sorted(built),
                     "kind_free_text": "hand-written explicit-state / stateless bounded explorers over the real Python code (no model-checker for Python is installed), with a Python reference model validated on every transition"}],
        "checks": checks,
        "notes": "All checks import nasim from /repo's working tree (asserted). Exit 0 held / 1 VIOLATION / 2 harness error. Known findings: /verif/known_findings.json.",
        "not_applicable": na,
    }
    with open(os.path.join(HERE, "MANIFEST.json"), "w") as f:
        json.dump(m, f, indent=1)
    print("checks:", len(checks), "not_applicable:", len(na))
main()
