#!/usr/bin/env python3
"""Copy a verified sub-agent mutation into /verif/seeded/<id>/ with meta.json."""
import json, os, shutil, sys
res = {}
import sys
WAVE = sys.argv[1] if len(sys.argv) > 1 else ""
for l in open("/tmp/wt/verify_results%s.jsonl" % ("_" + WAVE if WAVE else "")):
    r = json.loads(l); res[(r["id"], r["m"])] = r
for (pid, m), r in sorted(res.items()):
    ok = r["apply"] == "ok" and r["baseline"] == "ok" and r["demo_mut"] == "fails_as_expected" and r["demo_orig"] == "passes_as_expected"
    src = f"/tmp/wt/{pid}/out/{m}"
    dst = f"/verif/seeded/{pid}-{WAVE + '-' if WAVE else ''}{m}"
    if not ok:
        print("SKIP (not confirmed):", pid, m, r); continue
    os.makedirs(dst, exist_ok=True)
    for f in ("patch.diff", "demo.py", "notes.md"):
        shutil.copy(os.path.join(src, f), os.path.join(dst, f))
    # demos import nasim from their scratch worktree; point them at NASIM_REPO (default /repo) instead
    d = open(os.path.join(dst, "demo.py")).read().replace(f'"/tmp/wt/{pid}"', 'os.environ.get("NASIM_REPO", "/repo")').replace(f"'/tmp/wt/{pid}'", 'os.environ.get("NASIM_REPO", "/repo")')
    if "import os" not in d.split("sys.path.insert")[0]:
        d = "import os\n" + d
    open(os.path.join(dst, "demo.py"), "w").write(d)
    notes = open(os.path.join(src, "notes.md")).read()
    meta = {"property": pid, "id": os.path.basename(dst), "origin": "independent sub-agent given only the property text and a scratch worktree",
            "needs_to_manifest": notes.strip()[:1500],
            "confirmed": {"patch_applies_to_repo_HEAD": True, "pinned_baseline_1092_pass_with_patch": True,
                          "demo_fails_with_patch": True, "demo_passes_without_patch": True,
                          "how": "tools/verify_seed.sh in the scratch worktree: git apply; /venv/bin/python baseline.py <wt>; demo.py; git checkout; demo.py"},
            "detected_by": {}}
    mp = os.path.join(dst, "meta.json")
    if os.path.exists(mp):
        old = json.load(open(mp)); meta["detected_by"] = old.get("detected_by", {})
    json.dump(meta, open(mp, "w"), indent=1)
    print("harvested", dst)
