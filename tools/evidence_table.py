#!/usr/bin/env python3
"""Rewrite the measured table of DESIGN.md §6 (between the EVIDENCE_TABLE markers) from /verif/evidence/*.json."""
import glob, json, os, re
HERE = os.path.dirname(os.path.dirname(os.path.abspath(__file__)))
rows = ["| check | tier | states | transitions | evaluations | API programs / operations | wall (s) | exhaustive within bound |",
        "|---|---|---|---|---|---|---|---|"]
tot = 0.0
for f in sorted(glob.glob(os.path.join(HERE, "evidence", "C*.json"))):
    e = json.load(open(f)); c = e["coverage"]; a = c.get("api_sequence_exploration") or {}
    tot += float(e.get("wall_s") or 0)
    rows.append("| %s | %s | %s | %s | %s | %s | %.0f | %s |" % (
        e["property_id"], e["tier"], c.get("states", "-"), c.get("transitions", "-"), c.get("evaluations", "-"),
        ("%s / %s" % (a.get("api_programs"), a.get("api_operations"))) if a else "-", float(e.get("wall_s") or 0),
        "yes" if c.get("exhaustive") else "capped (see evidence)"))
rows.append("")
rows.append("Sum of the wall times above: %.0f s (%.1f min)." % (tot, tot / 60))
p = os.path.join(HERE, "DESIGN.md")
s = open(p).read()
block = "<!-- EVIDENCE_TABLE_BEGIN -->\n" + "\n".join(rows) + "\n<!-- EVIDENCE_TABLE_END -->"
if "<!-- EVIDENCE_TABLE_BEGIN -->" in s:
    s = re.sub(r"<!-- EVIDENCE_TABLE_BEGIN -->.*?<!-- EVIDENCE_TABLE_END -->", lambda m: block, s, flags=re.S)
    open(p, "w").write(s)
print("\n".join(rows))
