#!/venv/bin/python
"""setup_cmd: nothing to build (pure Python). Verifies the toolchain and that MANIFEST validates."""
import json, os, sys
sys.path.insert(0, "/verif")
ok = True
try:
    from mc.common import import_nasim
    n = import_nasim()
    print("nasim from", n.__file__)
except Exception as e:
    print("cannot import nasim from /repo:", e); ok = False
try:
    m = json.load(open("/verif/MANIFEST.json"))
    assert m["version"] == 1 and m["checks"]
    sch = "/root/.vp/MANIFEST.schema.json"
    if os.path.exists(sch):
        try:
            import jsonschema
            jsonschema.validate(m, json.load(open(sch)))
            print("MANIFEST validates against schema")
        except ImportError:
            print("jsonschema not available in this interpreter; structural check only")
except Exception as e:
    print("MANIFEST problem:", e); ok = False
os.makedirs("/verif/evidence", exist_ok=True)
os.makedirs("/verif/replays", exist_ok=True)
sys.exit(0 if ok else 1)
