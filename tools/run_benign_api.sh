#!/bin/bash
# Reduced false-alarm hunt for the machinery added after the first benign round (API-sequence explorer, C09/C10/C19/C20
# additions): every behaviour-preserving change in /tmp/wt/B*/out/b*/ against the checks that carry the new parts.
cd /verif
for b in ${1:-B01 B02 B03 B04 B05 B08 B10}; do
  for f in /tmp/wt/$b/out/b*/patch.diff; do
    [ -f "$f" ] && ./tools/benign_test.py $f C04 C13 C09 C10
  done
done
